(* Property C04 -- corrupted or tampered data never yields a successful wrong clone.
   Header part: Model/Archive.v::try_init. Payload part: Model/CloneArchive.v (see C04_payload_tamper_safe). *)
From Bita Require Import Model.Base Gen.Generated Model.Proto Model.Archive.
From Bita Require Import Model.ChunkIndex Model.CloneOutput Model.CloneSpec Model.CloneArchive.
From Bita Require Import Proofs.ArchiveSafe Proofs.CloneCorrect Proofs.TamperSafe.
From Bita Require Import Model.HttpReader Model.CloneHttpModel Proofs.CloneHttpSafe.

(* acceptance implies: magic is one of the two, and the 64 bytes after the offset field are the hash of
   everything before them -- for ARBITRARY bytes *)
Theorem C04_header_accept_implies : forall (H : list N -> list N) f a, try_init H (file_read_at f) = Ok a ->
  exists dsize,
       dsize = le_value (slice f 6 14)
    /\ a_header_size a = 14 + dsize + 8 + 64 /\ a_header_size a <= lenN f
    /\ (list_eqb (takeN 6 f) ARCHIVE_MAGIC = true \/ list_eqb (takeN 6 f) LEGACY_MAGIC = true)
    /\ slice f (14 + dsize + 8) (14 + dsize + 8 + 64) = H (takeN (14 + dsize + 8) f)
    /\ a_header_checksum a = H (takeN (14 + dsize + 8) f).
Proof. exact header_accept_implies. Qed.

(* the accepted archive depends on the header bytes only: nothing after the header can change what is
   reported or which chunks are described *)
Theorem C04_header_only : forall (H : list N -> list N) f1 f2 a, try_init H (file_read_at f1) = Ok a ->
  takeN (a_header_size a) f1 = takeN (a_header_size a) f2 -> a_header_size a <= lenN f2 ->
  try_init H (file_read_at f2) = Ok a.
Proof. exact try_init_header_only. Qed.

(* pinned header checksum (--verify-header, full length): two accepted archives with equal header checksums
   have byte-identical headers -- hence identical dictionaries and offsets -- unless H collides on the two
   hashed header bodies *)
Theorem C04_pinned_header_identity : forall (H : list N -> list N) f1 f2 a1 a2,
  try_init H (file_read_at f1) = Ok a1 -> try_init H (file_read_at f2) = Ok a2 ->
  a_header_checksum a1 = a_header_checksum a2 ->
  (forall x y, x = takeN (a_header_size a1 - 64) f1 -> y = takeN (a_header_size a2 - 64) f2 -> H x = H y -> x = y) ->
  takeN (a_header_size a1) f1 = takeN (a_header_size a2) f2 /\ a1 = a2.
Proof. exact pinned_header_identity. Qed.

(* payload tampering: for EVERY assignment of payloads to the fetched descriptors (bit flips, swaps,
   truncations, error pages of the right length, anything a server may send), with or without seeds and in
   place or not, the clone either fails or leaves exactly the source. [verified_ok] is the cryptographic
   assumption restricted to this run: whatever passes decompression + truncated-hash comparison for a
   descriptor is that descriptor's chunk. *)
Theorem C04_payload_tamper_safe :
  forall (H : list N -> list N) (decomp : N -> list N -> option (list N)) (D : N -> list N)
         a src payload_of prior oidx seeds,
    describes D (build_source_index a) src -> out_ok D oidx prior -> sound_feeds D seeds ->
    desc_keys_ok a -> verified_ok H decomp D a payload_of ->
    match archive_clone H decomp a payload_of prior oidx seeds with
    | Ok r => o_err (cr_state r) = None /\ cr_index r = [] /\ takeN (lenN src) (o_file (cr_state r)) = src
    | Err _ => True
    | Panic _ | OutOfFuel => False
    end.
Proof. exact payload_tamper_safe. Qed.

(* --verify-header: the refusal condition of src/clone_cmd.rs (regenerated from the source on every run as a boolean
   term over what its comparisons observe; HashSum equality only compares the common prefix) lets a clone proceed
   only when the supplied value has the full length of the archive's header checksum AND agrees with it on that
   length, i.e. equals it; and no file operation precedes the check. *)
Theorem C04_pin_proceeds_only_if_equal : forall o,
  pin_refuses o = false -> pin_len_differs o = false /\ pin_prefix_differs o = false.
Proof. intros [[|] [|]]; cbn; intros Hr; try discriminate Hr; split; reflexivity. Qed.
Theorem C04_pin_checked_before_output : pin_checked_before_output = true.
Proof. reflexivity. Qed.

(* "any wrong or incomplete data returned by a server": the WHOLE clone over http (Model/CloneHttpModel.v: try_init
   through read_at, chunk stream through read_chunks, decompress + verify + feed, resize) against a server that
   follows ANY script -- complete answers, refused connections, bodies cut or ending early, extra bytes, wrong
   bytes, in any order and number, header requests included. If the clone reports success, the output is the
   source. Hypothesis: whatever passes decompression + hash comparison for descriptor d is chunk d (second
   pre-image resistance, for whatever data this run is offered). *)
Theorem C04_http_clone_any_server :
  forall (H : list N -> list N) (decomp : N -> list N -> option (list N)) (D : N -> list N)
         f retries script a sc lg src out,
    http_open H f retries script = (Ok a, sc, lg) ->
    describes D (build_source_index a) src -> desc_keys_ok a -> a_total a = lenN src ->
    (forall d x y, In d (a_descs a) -> unpack H decomp a d x = Ok y -> y = D (dkey a d)) ->
    fst (http_clone H decomp f retries script) = Ok out -> out = src.
Proof. exact http_clone_tamper_safe. Qed.

Print Assumptions C04_payload_tamper_safe.
Print Assumptions C04_header_accept_implies.
Print Assumptions C04_header_only.
Print Assumptions C04_pinned_header_identity.
Print Assumptions C04_pin_proceeds_only_if_equal.
Print Assumptions C04_pin_checked_before_output.
Print Assumptions C04_http_clone_any_server.
