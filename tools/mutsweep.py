#!/usr/bin/env python3
"""Systematic single-edit mutation sweep (a measurement of the checks, not a check itself).

  python3 tools/mutsweep.py --env /tmp/alt2 --seed 1 --count 40 --out /verif/seeded/sweep/run1.jsonl [--files f1,f2]
  python3 tools/mutsweep.py --env /tmp/alt2 --baseline          (unchanged tree: all suites once, must flag nothing)

Works only in a scratch environment <env>/{repo,verif} (a git worktree of /repo and a copy of /verif with its
own build directory), never in /repo.  For every sampled mutant (one operator, literal, min/max, negation or
statement-deletion edit outside test modules and log lines) it
  1. builds and runs the repository's own test suite (a mutant those tests reject is not a realistic change),
  2. regenerates Generated.v (changed text -> rebuild the proofs), rebuilds harness and CLI,
  3. runs every correspondence suite once, all in parallel, and the extracted model over every case file,
and records which properties' labels / suites raise an alarm.  Surviving mutants are to be read by hand: they
are either equivalent (behaviour unchanged or no property concerned) or a gap in the suites.
"""
import sys, os, re, json, random, subprocess, time, argparse, importlib.machinery, shutil
from concurrent.futures import ThreadPoolExecutor

FILES = """bitar/src/archive.rs bitar/src/chunk.rs bitar/src/chunk_dictionary.rs bitar/src/chunk_index.rs
bitar/src/chunk_location_map.rs bitar/src/chunk_offset.rs bitar/src/clone_output.rs bitar/src/compression.rs
bitar/src/hashsum.rs bitar/src/header.rs bitar/src/api/compress.rs bitar/src/archive_reader/http_range_request.rs
bitar/src/archive_reader/http_reader.rs bitar/src/archive_reader/io_reader.rs bitar/src/chunker/config.rs
bitar/src/chunker/fixed_size.rs bitar/src/chunker/rolling_hash.rs bitar/src/chunker/streaming_chunker.rs
bitar/src/chunker/mod.rs bitar/src/rolling_hash/buzhash.rs bitar/src/rolling_hash/rollsum.rs
src/clone_cmd.rs src/compress_cmd.rs src/info_cmd.rs src/cli.rs""".split()

SKIP_LINE = re.compile(r"^\s*(//|#\[|use |pub use |mod |pub mod )|log::|\b(debug|info|warn|error|trace|println|eprintln|write|writeln|panic|unreachable|assert|debug_assert|assert_eq)!\s*\(")
OPS = [(" < ", " <= "), (" <= ", " < "), (" > ", " >= "), (" >= ", " > "), (" == ", " != "), (" != ", " == "),
       (" + ", " - "), (" - ", " + "), (" && ", " || "), (" || ", " && "), (" += ", " -= "), (" -= ", " += "),
       (" * ", " / "), (" / ", " * "), (" % ", " / "), (" << ", " >> "), (" >> ", " << "), (" ^ ", " | "), (" | ", " & "), (" & ", " | "),
       (".min(", ".max("), (".max(", ".min("), ("cmp::min(", "cmp::max("), ("cmp::max(", "cmp::min("),
       ("min(", "max("), ("max(", "min("),
       ("true", "false"), ("false", "true"), ("if !", "if "), ("while !", "while "),
       (".is_some()", ".is_none()"), (".is_none()", ".is_some()"), (".is_empty()", ".len() == 1"),
       ("saturating_sub", "wrapping_sub"), ("..=", ".."), ("Ok(())", "return Ok(())")]


def in_string(line, pos):
    return line[:pos].count('"') % 2 == 1


def candidates(path, text):
    lines = text.split("\n")
    out = []
    stop = len(lines)
    for i, l in enumerate(lines):
        if re.match(r"\s*#\[cfg\(test\)\]", l):
            stop = i
            break
    guarded = False
    depth_fmt = 0
    for i in range(stop):
        l = lines[i]
        if re.search(r"cfg\((not\()?oll3_bita_verif|cfg\(not\(unix\)\)|cfg\(windows\)|cfg\(target_os = \"(macos|android|windows)\"\)", l):
            guarded = True
            continue
        if guarded:  # the item following the attribute: skip until a line that closes at column <= attribute's
            if l.strip() in ("}", "};", "") or l.strip().endswith(";"):
                guarded = False
            continue
        if SKIP_LINE.search(l):
            continue
        code = l.split("//")[0]
        for a, b in OPS:
            start = 0
            while True:
                p = code.find(a, start)
                if p < 0:
                    break
                start = p + 1
                if in_string(code, p):
                    continue
                if a in ("min(", "max(") and p > 0 and (code[p - 1].isalnum() or code[p - 1] in "._:"):
                    continue
                if a in ("true", "false") and ((p > 0 and (code[p - 1].isalnum() or code[p - 1] == "_")) or
                                               (p + len(a) < len(code) and (code[p + len(a)].isalnum() or code[p + len(a)] == "_"))):
                    continue
                if a == "Ok(())" and (code.strip() != "Ok(())" or i + 1 >= stop or lines[i + 1].strip() != "}"):
                    continue
                if a == "Ok(())":
                    continue  # no-op edit
                if a == ".." and code[p:p + 3] != "..=":
                    continue
                if a in (" + ", " - ") and re.match(r"[A-Z']", code[p + 3:p + 4]) and not re.match(r"[A-Z_]{3,}", code[p + 3:]):
                    continue  # trait bounds
                out.append({"file": path, "line": i + 1, "op": f"{a.strip()}->{b.strip()}",
                            "new": code[:p] + b + code[p + len(a):] + l[len(code):]})
        for m in re.finditer(r"(?<![\w.\"'])(\d+)(?![\w.\"']|\.\d)", code):
            if in_string(code, m.start()):
                continue
            n = int(m.group(1))
            if re.search(r"\[\s*$", code[:m.start()]) and n > 8:  # array of table constants
                continue
            for nn in ([n + 1] if n == 0 else [n + 1, n - 1]):
                out.append({"file": path, "line": i + 1, "op": f"lit {n}->{nn}",
                            "new": code[:m.start()] + str(nn) + code[m.end():] + l[len(code):]})
        s = code.strip()
        if s.endswith(";") and s.count("(") == s.count(")") and s.count("{") == s.count("}") and \
                not re.match(r"(let |return|use |break|continue|pub |const |static |type |\}|\)|\]|\.)", s):
            prev = lines[i - 1].split("//")[0].rstrip() if i > 0 else ""
            if prev.endswith(("=", ",", "(", "||", "&&", "+", "-", ".", "=>")) or (i + 1 < stop and lines[i + 1].strip().startswith(".")):
                continue
            out.append({"file": path, "line": i + 1, "op": "delete-stmt", "new": re.match(r"\s*", l).group(0) + "// (deleted)"})
    for c in out:
        c["old"] = lines[c["line"] - 1]
    return [c for c in out if c["new"] != c["old"]]


def sh(cmd, cwd=None, env=None, timeout=None):
    try:
        p = subprocess.run(cmd, shell=True, cwd=cwd, env=env, timeout=timeout, stdout=subprocess.PIPE, stderr=subprocess.STDOUT, text=True)
        return p.returncode, p.stdout
    except subprocess.TimeoutExpired as e:
        o = e.stdout or ""
        if isinstance(o, bytes):
            o = o.decode(errors="replace")
        return 124, o + "\nTIMEOUT"


class Env:
    def __init__(self, base):
        self.base = base
        self.repo = f"{base}/repo"
        self.verif = f"{base}/verif"
        assert os.path.isdir(self.repo) and os.path.isdir(self.verif) and not self.repo.startswith("/repo")
        sh("git checkout -- .", cwd=self.repo)
        sh(f"rsync -a /verif/ {self.verif}/ --exclude build --exclude .git --exclude evidence --exclude seeded "
           f"--exclude harness/Cargo.toml --exclude harness/Cargo.lock")
        os.environ["VERIF_REPO"] = self.repo
        self.chk = importlib.machinery.SourceFileLoader("chk", f"{self.verif}/check").load_module()
        self.gen = f"{self.verif}/coq/theories/Gen/Generated.v"
        self.all_suites = []
        for pid, spec in self.chk.PROPS.items():
            for s in spec["suites"]:
                if s not in self.all_suites:
                    self.all_suites.append(s)

    def props_of_suite(self, cf):
        r = []
        for pid, spec in self.chk.PROPS.items():
            files = set(spec["suites"])
            for s, extra in spec.get("extra_case_files", {}).items():
                files.update(extra)
            if cf in files:
                r.append(pid)
        return r

    def tests(self):
        env = dict(os.environ, CARGO_NET_OFFLINE="true", CARGO_TARGET_DIR=f"{self.base}/target-tests")
        env.pop("RUSTFLAGS", None)
        rc, out = sh("timeout 300 cargo test --workspace --offline --no-fail-fast 2>&1 | tail -60", cwd=self.repo, env=env, timeout=400)
        if re.search(r"^error\[|could not compile", out, re.M):
            return "nocompile", out[-600:]
        if rc != 0 or "test result: FAILED" in out or "TIMEOUT" in out or "FAILED" in out or "Terminated" in out:
            return "tests-fail", "; ".join(re.findall(r"^test (\S+) \.\.\. FAILED", out, re.M))[:300] or out[-300:]
        if "test result: ok" not in out:
            return "tests-fail", out[-300:]
        return "ok", ""

    def detect(self, gen_base, tier="quick", seed=1):
        chk = self.chk
        flagged = {}   # property -> list of reasons

        def flag(p, why):
            flagged.setdefault(p, [])
            if len(flagged[p]) < 3:
                flagged[p].append(why[:200])
        ok, msg, facts = chk.step_translate()
        if not ok:
            for p in chk.PROPS:
                flag(p, "translator failed")
        for b in facts.get("broken_sections", []):
            for p in chk.PROPS:
                if b["section"] in chk.SECTIONS_OF.get(p, chk.ALL_SECTIONS):
                    flag(p, f"translator section {b['section']}")
        gen_now = open(self.gen).read()
        if gen_now != gen_base:
            for p in chk.PROPS:
                okc, log = chk.step_coq(p)
                if not okc:
                    flag(p, "proof breaks on regenerated model")
        chk.step_extract()
        okh, hmsg = chk.step_harness()
        okb, bmsg = chk.step_cli()
        if not (okh and okb):
            return {"_build": [("harness " + hmsg[-300:]) if not okh else ("cli " + bmsg[-300:])]}, gen_now != gen_base
        outdir = f"{self.verif}/build/cases/sweep"
        shutil.rmtree(outdir, ignore_errors=True)
        os.makedirs(outdir)

        def run_suite(s):
            return s, chk.sh([chk.HARNESS, s, "--tier", tier, "--seed", str(seed), "--out", outdir], timeout=3000)
        with ThreadPoolExecutor(max_workers=16) as ex:
            results = list(ex.map(run_suite, self.all_suites))
        for s, (rc, out) in results:
            sj = f"{outdir}/{s}.json"
            if rc != 0 or not os.path.exists(sj):
                for p in self.props_of_suite(s):
                    flag(p, f"suite {s} failed to run: {out[-120:]}")
                continue
            for v in json.load(open(sj))["violations"]:
                for pid, spec in chk.PROPS.items():
                    if s in spec["suites"] and (v["property"] == pid or v["property"] in spec.get("also", [])):
                        flag(pid, f"{s}: {v['what']}")
        for cf in sorted(f[:-6] for f in os.listdir(outdir) if f.endswith(".cases")):
            cases = f"{outdir}/{cf}.cases"
            if os.path.getsize(cases) == 0:
                continue
            mo = f"{outdir}/{cf}.model"
            okm, mmsg = chk.run_model(cases, mo)
            n, dis = chk.compare(cases, f"{outdir}/{cf}.impl", mo)
            if dis or not okm:
                for p in self.props_of_suite(cf):
                    flag(p, f"{cf}: model and implementation differ" if dis else f"{cf}: model run failed")
        return flagged, gen_now != gen_base


def main():
    ap = argparse.ArgumentParser()
    ap.add_argument("--env", required=True)
    ap.add_argument("--seed", type=int, default=1)
    ap.add_argument("--count", type=int, default=20)
    ap.add_argument("--out", default=None)
    ap.add_argument("--files", default=None)
    ap.add_argument("--ops", default=None, help="regex on the op name")
    ap.add_argument("--baseline", action="store_true")
    ap.add_argument("--list", action="store_true")
    a = ap.parse_args()
    env = Env(a.env)
    ok, msg, facts = env.chk.step_translate()
    gen_base = open(env.gen).read()
    if a.baseline:
        t0 = time.time()
        print("tests:", env.tests())
        fl, ch = env.detect(gen_base)
        print(f"baseline flagged={json.dumps(fl)} wall={time.time() - t0:.0f}s")
        return 1 if fl else 0
    files = a.files.split(",") if a.files else FILES
    cands = []
    for f in files:
        cands += candidates(f, open(f"{env.repo}/{f}").read())
    if a.ops:
        cands = [c for c in cands if re.search(a.ops, c["op"])]
    if a.list:
        for c in cands:
            print(c["file"], c["line"], c["op"], "|", c["old"].strip(), "=>", c["new"].strip())
        print(len(cands), "candidates")
        return 0
    rng = random.Random(a.seed)
    rng.shuffle(cands)
    done = set()
    if a.out and os.path.exists(a.out):
        for l in open(a.out):
            r = json.loads(l)
            done.add((r["file"], r["line"], r["op"]))
    n = 0
    for c in cands:
        if n >= a.count:
            break
        key = (c["file"], c["line"], c["op"])
        if key in done:
            continue
        n += 1
        t0 = time.time()
        sh("git checkout -- .", cwd=env.repo)
        p = f"{env.repo}/{c['file']}"
        lines = open(p).read().split("\n")
        assert lines[c["line"] - 1] == c["old"]
        lines[c["line"] - 1] = c["new"]
        open(p, "w").write("\n".join(lines))
        status, detail = env.tests()
        rec = dict(c, tests=status, tests_detail=detail)
        if status == "ok":
            fl, changed = env.detect(gen_base)
            rec["flagged"] = fl
            rec["generated_changed"] = changed
            rec["result"] = "detected" if fl else "survived"
        else:
            rec["result"] = status
        rec["wall_s"] = round(time.time() - t0)
        sh("git checkout -- .", cwd=env.repo)
        print(json.dumps({k: rec[k] for k in ("file", "line", "op", "result", "wall_s")} |
                         {"by": sorted(rec.get("flagged", {}))}), flush=True)
        if a.out:
            os.makedirs(os.path.dirname(a.out), exist_ok=True)
            with open(a.out, "a") as f:
                f.write(json.dumps(rec) + "\n")
    sh("git checkout -- .", cwd=env.repo)
    env.chk.step_translate()
    return 0


if __name__ == "__main__":
    sys.exit(main())
