#!/usr/bin/env python3
"""Confirm a planted change and run the checks against it.

  tools/seedtest.py confirm <id> <worktree> <outdir>   # in the scratch worktree: tests pass, demo fails with / passes without
  tools/seedtest.py detect  <seeded-dir> <Cxx> [<Cyy> ...]  # apply patch.diff to /repo, run ./check, undo

`confirm` is run before a change is kept under /verif/seeded/<id>/; `detect` records which checks catch it in
/verif/seeded/<id>/meta.json (field "detected_by").
"""
import sys, os, json, subprocess, shutil, time

ENV = dict(os.environ, CARGO_NET_OFFLINE="true")


def sh(cmd, cwd=None, timeout=3600, env=None):
    p = subprocess.run(cmd, shell=True, cwd=cwd, env=env or ENV, stdout=subprocess.PIPE, stderr=subprocess.STDOUT, text=True, timeout=timeout)
    return p.returncode, p.stdout


def run_demo(wt, outdir, env):
    """returns True when the demonstration passes"""
    if os.path.exists(os.path.join(outdir, "demo.rs")):
        shutil.copy(os.path.join(outdir, "demo.rs"), os.path.join(wt, "bitar/tests/zz_demo.rs"))
        rc, out = sh("cargo test -p bitar --offline --features compress --test zz_demo 2>&1 | tail -30", cwd=wt, env=env)
        os.remove(os.path.join(wt, "bitar/tests/zz_demo.rs"))
        ok = "test result: ok" in out and "FAILED" not in out and "running 0 tests" not in out and not any(e in out.split("test result")[0][-400:] for e in ("error[", "error:", "could not compile"))
        return ok, out[-1500:]
    for name, runner in (("demo.py", "python3"), ("demo.sh", "bash")):
        p = os.path.join(outdir, name)
        if os.path.exists(p):
            rc, _ = sh("cargo build --offline 2>&1 | tail -3", cwd=wt, env=env)
            rc, out = sh(f"{runner} {p} {wt}/target/debug/bita", cwd=wt, env=env)
            return rc == 0, out[-1500:]
    return None, "no demo found"


def confirm(sid, wt, outdir):
    env = dict(ENV, CARGO_TARGET_DIR=os.path.join(wt, "target"))
    res = {}
    rc, diff = sh("git diff", cwd=wt)
    if not diff.strip():
        print("worktree has no change applied")
        return 1
    open(os.path.join(outdir, "patch.diff"), "w").write(diff)
    rc, out = sh("cargo test --workspace --offline 2>&1 | grep -E '^test result|FAILED|^error' ", cwd=wt, env=env)
    passed = sum(int(l.split("ok. ")[1].split(" passed")[0]) for l in out.splitlines() if l.startswith("test result: ok."))
    res["tests_pass_with_change"] = ("FAILED" not in out and "error" not in out and passed >= 92)
    res["tests_passed_count"] = passed
    ok_with, log_with = run_demo(wt, outdir, env)
    res["demo_passes_with_change"] = ok_with
    # (not `git stash`: the stash is shared by all worktrees of a repository)
    patch = os.path.join(outdir, "patch.diff")
    sh(f"git apply -R {patch}", cwd=wt)
    try:
        ok_without, log_without = run_demo(wt, outdir, env)
    finally:
        sh(f"git apply {patch}", cwd=wt)
    res["demo_passes_without_change"] = ok_without
    res["confirmed"] = bool(res["tests_pass_with_change"] and ok_with is False and ok_without is True)
    print(json.dumps(res, indent=1))
    if not res["confirmed"]:
        print("--- demo with change ---\n" + log_with + "\n--- demo without change ---\n" + log_without)
    json.dump(res, open(os.path.join(outdir, "confirm.json"), "w"), indent=1)
    return 0 if res["confirmed"] else 1


ALT = os.environ.get("SEEDTEST_ALT")  # run in the scratch copy /tmp/alt/{repo,verif} (set up by hand) instead of /repo + /verif


def detect(sdir, props):
    if ALT:
        base = ALT if ALT.startswith("/") else "/tmp/alt"
        return detect_in(f"{base}/repo", f"{base}/verif", sdir, props, dict(ENV, VERIF_REPO=f"{base}/repo"))
    return detect_in("/repo", "/verif", sdir, props, ENV)


def detect_in(REPO, VERIF, sdir, props, env):
    patch = os.path.join(sdir, "patch.diff")
    if ALT:
        sh("git checkout -- .", cwd=REPO)
        sh(f"rsync -a /verif/ {VERIF}/ --exclude build --exclude .git --exclude evidence --exclude harness/Cargo.toml --exclude harness/Cargo.lock")
    rc, out = sh("git status --short", cwd=REPO)
    if out.strip():
        print(f"{REPO} has uncommitted changes; refusing")
        return 2
    rc, out = sh(f"git apply {patch}", cwd=REPO)
    if rc != 0:
        print("patch does not apply:", out)
        return 2
    results = {}
    # evidence written while the change is applied describes the patched tree: keep the unchanged tree's records
    saved = {p: open(f"{VERIF}/evidence/{p}.json").read() for p in props if os.path.exists(f"{VERIF}/evidence/{p}.json")}
    try:
        for p in props:
            t0 = time.time()
            rc, out = sh(f"./check {p} --tier quick", cwd=VERIF, timeout=3000, env=env)
            lines = [l for l in out.splitlines() if l.startswith("VIOLATION") or l.startswith("KNOWN-FINDING") or l.startswith("[")]
            results[p] = {"exit": rc, "lines": lines[-4:], "wall_s": round(time.time() - t0)}
            replay = None
            for l in lines:
                if l.startswith("VIOLATION") and "replay=" in l:
                    replay = l.split("replay=")[1].split()[0]
            if replay and os.path.exists(replay):
                r = json.load(open(replay))
                results[p]["what"] = r.get("what")
                results[p]["broken_kinds"] = sorted(set(b["kind"] for b in r.get("broken", [])))
            print(p, results[p])
    finally:
        sh("git checkout -- .", cwd=REPO)
        for p, txt in saved.items():
            open(f"{VERIF}/evidence/{p}.json", "w").write(txt)
        sh("python3 tools/translate.py >/dev/null", cwd=VERIF, env=env)
    mp = os.path.join(sdir, "meta.json")
    meta = json.load(open(mp)) if os.path.exists(mp) else {}
    # merge with earlier runs (a later run replaces the entry of the properties it ran)
    det = dict(meta.get("detected_by", {}))
    nd = set(meta.get("not_detected_by", []))
    for p, r in results.items():
        det.pop(p, None); nd.discard(p)
        if r["exit"] != 0: det[p] = r
        else: nd.add(p)
    meta["detected_by"] = det
    meta["not_detected_by"] = sorted(nd)
    json.dump(meta, open(mp, "w"), indent=1)
    return 0


if __name__ == "__main__":
    if sys.argv[1] == "confirm":
        sys.exit(confirm(sys.argv[2], sys.argv[3], sys.argv[4]))
    sys.exit(detect(sys.argv[2], sys.argv[3:]))
