#!/usr/bin/env python3
"""writes MANIFEST.json from tools/props.py (kept in one place so the two cannot drift)"""
import json, os, sys
ROOT = os.path.dirname(os.path.dirname(os.path.abspath(__file__)))
sys.path.insert(0, os.path.join(ROOT, "tools"))
from props import PROPS, NOT_APPLICABLE, HOOK_COMMITS

m = {
    "version": 1,
    "setup_cmd": "./check --setup",
    "hooks": {
        "guard": "cfg(oll3_bita_verif)",
        "enable": "RUSTFLAGS='--cfg oll3_bita_verif' cargo build --offline (set by ./check for the harness crate, which "
                  "depends on /repo/bitar by path, and for the bita binary built into build/target-cli)",
        "baseline_off_cmd": "cd /repo && cargo test --workspace --no-fail-fast --offline",
        "source_commits": HOOK_COMMITS,
        "add_only": True,
    },
    "engines": [
        {"name": "coq-proof", "path": "coq/", "serves_properties": sorted(PROPS),
         "kind_free_text": "Coq 8.16.1 library Bita: executable Gallina models (Model/), lemmas (Proofs/), pinned property "
                           "theorems (Properties/), Generated.v regenerated from /repo by tools/translate.py"},
        {"name": "correspondence", "path": "harness/ + ocaml/", "serves_properties": sorted(PROPS),
         "kind_free_text": "Rust harness running the implementation built from /repo's working tree, extracted OCaml "
                           "model runner, line-by-line comparison; implementation-side property oracles give the replay"},
    ],
    "checks": [],
    "not_applicable": [n for n in NOT_APPLICABLE if not (n["property_id"] in PROPS and PROPS[n["property_id"]]["theorems"])],
    "notes": "All checks: ./check <id>; tier from --tier or VERIF_TIER, seed from VERIF_SEED. A broken proof, audit, "
             "translator anchor or model/implementation disagreement without a concrete failing input is reported as "
             "VIOLATION ... no-failing-input-found. known_findings.json lists recorded and fixed findings.",
}
for pid in sorted(PROPS):
    p = PROPS[pid]
    if not p["theorems"]:
        continue
    m["checks"].append({
        "property_id": pid,
        "quick_cmd": f"./check {pid} --tier quick",
        "thorough_cmd": f"./check {pid} --tier thorough",
        "evidence_file": f"/verif/evidence/{pid}.json",
        "replay_cmd_template": f"./check {pid} --replay {{path}}",
        "engine": "coq-proof",
        "level_claimed": {"category": "proof", "text": p["level_text"], "design_ref": p.get("design_ref", f"DESIGN.md section 5, {pid}")},
        "level_note": p["level_note"],
        "technique": p.get("technique", "machine-checked proof in Coq 8.16 about an executable Gallina model + "
                                        "model/implementation correspondence check"),
    })
json.dump(m, open(os.path.join(ROOT, "MANIFEST.json"), "w"), indent=1)
print("MANIFEST.json written:", len(m["checks"]), "checks,", len(NOT_APPLICABLE), "not applicable")
