#!/usr/bin/env python3
"""Translator: /repo working tree -> coq/theories/Gen/Generated.v

Re-extracts everything that is data or shape (constants, tables, protobuf schema,
OpenOptions flag expressions, order of effectful statements, pipeline combinators)
from the current source.  Deliberately dumb: anchored regular expressions over single
items.  A missing anchor raises TranslateError -- the caller reports the tie as broken;
there is never a fallback to a cached value.
"""
import re, sys, os, json, subprocess

REPO = os.environ.get("VERIF_REPO", "/repo")


class TranslateError(Exception):
    pass


_SRC_CACHE = {}


def src(path):
    """source text of a repository file; Rust files go through rustfmt (default style) first, so that a change of
    layout only (line width, call and chain wrapping, trailing commas) does not move an anchor.  Without a working
    rustfmt, or for a file it rejects, the raw text is used."""
    if path in _SRC_CACHE:
        return _SRC_CACHE[path]
    p = os.path.join(REPO, path)
    try:
        text = open(p).read()
    except OSError as e:
        raise TranslateError(f"cannot read {path}: {e}")
    if path.endswith(".rs") and not os.environ.get("VERIF_NO_RUSTFMT"):
        try:
            r = subprocess.run(["rustfmt", "--edition", "2021", "--emit", "stdout", "--config",
                                "max_width=100,use_small_heuristics=Default,newline_style=Unix"],
                               input=text, stdout=subprocess.PIPE, stderr=subprocess.PIPE, text=True, timeout=60,
                               cwd="/")
            if r.returncode == 0 and r.stdout.strip():
                text = r.stdout
        except (OSError, subprocess.SubprocessError):
            pass
    if path.startswith("src/") and path.endswith(".rs"):
        # the command functions take their options as `<name>: Options`; the anchors below say `opts`
        for n in set(re.findall(r"\b(\w+)\s*:\s*&?\s*(?:mut\s+)?Options\b", text)) - {"opts"}:
            if not re.search(r"\bopts\b", text):
                text = re.sub(rf"\b{re.escape(n)}\b", "opts", text)
    _SRC_CACHE[path] = text
    return text


def need(pattern, text, what, flags=re.S):
    m = re.search(pattern, text, flags)
    if not m:
        raise TranslateError(f"anchor not found: {what}")
    return m


def strip_comments(s):
    s = re.sub(r"//[^\n]*", "", s)
    s = re.sub(r"/\*.*?\*/", "", s, flags=re.S)
    return s


def int_lit(s):
    s = s.replace("_", "").strip()
    return int(s, 0)


def arith(expr):
    """evaluate a tiny constant expression like `1024 * 1024` or `6 + std::mem::size_of::<u64>()`"""
    e = expr.replace("std::mem::size_of::<u64>()", "8")
    if not re.fullmatch(r"[0-9_x a-fA-F+*()\s]+", e):
        raise TranslateError(f"unsupported constant expression: {expr}")
    return eval(e.replace("_", ""))


def inline_lets(expr, scope_text, depth=0):
    """replace identifiers bound by `let <id> = <boolean expression over opts>;` in scope_text by their definition"""
    if depth > 4:
        return expr
    def repl(m):
        name = m.group(0)
        if name in ("true", "false", "opts"):
            return name
        d = re.search(r"let\s+" + re.escape(name) + r"\s*(?::\s*bool\s*)?=\s*([^;]+);", scope_text)
        if not d:
            return name
        return "(" + inline_lets(d.group(1).strip(), scope_text, depth + 1) + ")"
    # identifiers that are not part of `opts.field`
    return re.sub(r"(?<![\w.])[A-Za-z_]\w*(?!\s*\.)(?![\w(])", repl, expr)


def fn_bodies(text):
    """name -> body text of every fn item of a source file (brace matching; good enough for rustfmt'ed code)"""
    out = {}
    for m in re.finditer(r"\bfn (\w+)\s*(?:<[^{;]*?>)?\s*\(", text):
        i = text.find("{", m.end())
        semi = text.find(";", m.end())
        if i < 0 or (0 <= semi < i and "where" not in text[m.end():i]):
            continue
        depth, j = 0, i
        while j < len(text):
            c = text[j]
            if c == "{":
                depth += 1
            elif c == "}":
                depth -= 1
                if depth == 0:
                    break
            j += 1
        out[m.group(1)] = text[i + 1:j]
    return out


def expand_calls(body, bodies, skip=(), depth=3):
    """textually inline the bodies of the file's own functions at their call sites (so that a step extracted into a
    helper is still found, at the position where it runs); calls keep their text, the body follows in a block"""
    if depth == 0:
        return body
    def repl(m):
        name = m.group(1)
        if name in bodies and name not in skip and not body[max(0, m.start() - 3):m.start()].endswith("fn "):
            return m.group(0) + "/*inlined " + name + "*/{" + expand_calls(bodies[name], bodies, tuple(skip) + (name,), depth - 1) + "}/*end*/("
        return m.group(0)
    return re.sub(r"\b(\w+)\s*\(", lambda m: repl(m) if m.group(1) in bodies else m.group(0), body)


def bool_expr(rust, fields):
    """`opts.force_create || opts.seed_output`, `!opts.force_create && !(a || b)`, `true`
    -> Gallina bool term over record projections given in fields (name -> coq projection)."""
    toks = re.findall(r"opts\.\w+|\|\||&&|!|\(|\)|true|false", rust)
    if "".join(toks) != re.sub(r"\s+", "", rust):
        raise TranslateError(f"unsupported boolean expression: {rust}")
    pos = [0]

    def peek():
        return toks[pos[0]] if pos[0] < len(toks) else None

    def take():
        t = peek()
        pos[0] += 1
        return t

    def atom():
        t = take()
        if t == "!":
            return "(negb " + atom() + ")"
        if t == "(":
            e = disj()
            if take() != ")":
                raise TranslateError(f"unbalanced parentheses in {rust}")
            return "(" + e + ")"
        if t in ("true", "false"):
            return t
        if t is None or not t.startswith("opts."):
            raise TranslateError(f"unsupported boolean expression: {rust}")
        f = t[5:]
        if f not in fields:
            raise TranslateError(f"unknown option field {f}")
        return "(" + fields[f] + " o)"

    def conj():
        e = atom()
        while peek() == "&&":
            take()
            e = e + " && " + atom()
        return e

    def disj():
        e = conj()
        while peek() == "||":
            take()
            e = "(" + e + ") || (" + conj() + ")" if "&&" in e else e + " || " + conj()
        return e

    e = disj()
    if pos[0] != len(toks):
        raise TranslateError(f"unsupported boolean expression: {rust}")
    return e


def open_options(block, fields, scope_text=""):
    """parse `.write(true).read(expr).create(expr)...` chain -> dict flag -> gallina"""
    flags = {}
    for m in re.finditer(r"\.(write|read|create|truncate|create_new|append)\(([^()]*(?:\([^()]*\))?[^()]*)\)", block):
        flags[m.group(1)] = bool_expr(inline_lets(m.group(2).strip(), scope_text), fields)
    return flags


SECTION_ORDER = [(n, None) for n in ["rolling", "chunker", "header", "proto", "levels", "versions", "cloneflags", "clonesteps",
                                    "compresssteps", "pincheck", "pipeline"]]


def _run_section(name, fn, sections, broken, facts, ctx, snapshot):
    """each section is translated independently; when an anchor of a section is missing the section is
    reported as broken (the properties depending on it then report the tie as broken) and the committed
    snapshot text is used for it so that unrelated properties can still be checked"""
    out = []
    try:
        fn(out.append, facts, ctx)
        sections[name] = "\n".join(out) + "\n"
    except TranslateError as e:
        broken.append({"section": name, "error": str(e)})
        if name in snapshot:
            sections[name] = snapshot[name]


def gen(snapshot=None):
    snapshot = snapshot or {}
    sections = {}
    broken = []
    facts = {}
    ctx = {}
    header_lines = ["(* GENERATED by tools/translate.py from the /repo working tree -- do not edit. *)",
        "From Coq Require Import NArith List Bool String.", "Import ListNotations.", "Open Scope N_scope.", ""]
    def _sec_rolling(w, facts, ctx):
        # ---- rolling hashes -------------------------------------------------------------
        bz = src("bitar/src/rolling_hash/buzhash.rs")
        seed = int_lit(need(r"const BUZHASH_SEED: u32 = (0x[0-9a-fA-F_]+);", bz, "BUZHASH_SEED").group(1))
        tab = need(r"static BUZHASH_TABLE: &\[u32\] = &\[(.*?)\];", bz, "BUZHASH_TABLE").group(1)
        vals = [int_lit(x) for x in re.findall(r"0x[0-9a-fA-F_]+", tab)]
        if len(vals) != 256:
            raise TranslateError(f"BUZHASH_TABLE has {len(vals)} entries, expected 256")
        w(f"Definition BUZHASH_SEED : N := {seed}.")
        w("Definition BUZHASH_TABLE : list N := [")
        for i in range(0, 256, 8):
            w("  " + "; ".join(str(v) for v in vals[i:i + 8]) + (";" if i + 8 < 256 else ""))
        w("].")
        facts["buzhash_table_len"] = len(vals)
        rs = src("bitar/src/rolling_hash/rollsum.rs")
        co = int_lit(need(r"const CHAR_OFFSET: u32 = ([0-9_xa-fA-F]+);", rs, "CHAR_OFFSET").group(1))
        w(f"Definition CHAR_OFFSET : N := {co}.")


    _run_section('rolling', _sec_rolling, sections, broken, facts, ctx, snapshot)
    def _sec_chunker(w, facts, ctx):
        # ---- streaming chunker ----------------------------------------------------------
        sc = src("bitar/src/chunker/streaming_chunker.rs")
        refill = arith(need(r"const REFILL_SIZE: usize = ([^;]+);", sc, "REFILL_SIZE").group(1))
        w(f"Definition REFILL_SIZE : N := {refill}.")


    _run_section('chunker', _sec_chunker, sections, broken, facts, ctx, snapshot)
    def _sec_header(w, facts, ctx):
        # ---- header ---------------------------------------------------------------------
        hd = src("bitar/src/header.rs")
        magic = need(r'pub const ARCHIVE_MAGIC: &\[u8; (\d+)\] = b"((?:[^"\\]|\\.)*)";', hd, "ARCHIVE_MAGIC")
        mbytes = bytes(magic.group(2), "utf-8").decode("unicode_escape").encode("latin1")
        if len(mbytes) != int(magic.group(1)):
            raise TranslateError("ARCHIVE_MAGIC length mismatch")
        w("Definition ARCHIVE_MAGIC : list N := [" + "; ".join(str(b) for b in mbytes) + "].")
        pre = arith(need(r"pub const PRE_HEADER_SIZE: usize = ([^;]+);", hd, "PRE_HEADER_SIZE").group(1))
        w(f"Definition PRE_HEADER_SIZE : N := {pre}.")
        ar = src("bitar/src/archive.rs")
        vph = need(r"fn verify_pre_header(.*?)\n    }\n", ar, "verify_pre_header").group(1)
        legacy = need(r'b"((?:[^"\\]|\\.)*)"', vph, "legacy magic literal in verify_pre_header")
        lbytes = bytes(legacy.group(1), "utf-8").decode("unicode_escape").encode("latin1")
        w("Definition LEGACY_MAGIC : list N := [" + "; ".join(str(b) for b in lbytes) + "].")
        hs = src("bitar/src/hashsum.rs")
        maxlen = int_lit(need(r"pub const MAX_LEN: usize = (\d+);", hs, "HashSum::MAX_LEN").group(1))
        w(f"Definition HASH_MAX_LEN : N := {maxlen}.")
        # trailer sizes used by try_init: dictionary_size + 8 + 64
        tr = need(r"let trailer_size = dictionary_size\s*\.checked_add\((\d+) \+ (\d+)\)", ar,
                  "try_init trailer size (offset field + header hash)")
        need(r"read_at\(header::PRE_HEADER_SIZE as u64, trailer_size\)", ar, "try_init second read_at")
        w(f"Definition TRAILER_OFFSET_SIZE : N := {tr.group(1)}.")
        w(f"Definition TRAILER_HASH_SIZE : N := {tr.group(2)}.")


    _run_section('header', _sec_header, sections, broken, facts, ctx, snapshot)
    def _sec_proto(w, facts, ctx):
        # ---- protobuf schema --------------------------------------------------------------
        proto = strip_comments(src("bitar/proto/chunk_dictionary.proto"))
        msgs = {}
        # top-level messages (nested enums are inside)
        for m in re.finditer(r"message (\w+) \{((?:[^{}]|\{[^{}]*\})*)\}", proto):
            name, body = m.group(1), m.group(2)
            enums = {}
            for e in re.finditer(r"enum (\w+) \{([^{}]*)\}", body):
                enums[e.group(1)] = [(k, int(v)) for k, v in re.findall(r"(\w+)\s*=\s*(\d+);", e.group(2))]
            body2 = re.sub(r"enum \w+ \{[^{}]*\}", "", body)
            fields = []
            for f in re.finditer(r"(repeated\s+)?(map<\s*\w+\s*,\s*\w+\s*>|\w+)\s+(\w+)\s*=\s*(\d+);", body2):
                fields.append((f.group(3), f.group(2).replace(" ", ""), bool(f.group(1)), int(f.group(4))))
            msgs[name] = (fields, enums)
        for req in ("ChunkDescriptor", "ChunkerParameters", "ChunkCompression", "ChunkDictionary"):
            if req not in msgs:
                raise TranslateError(f"proto message {req} not found")
        # cross-check with prost attributes of the checked-in generated code
        gen_rs = src("bitar/src/chunk_dictionary.rs")
        prost_tags = {}
        for sm in re.finditer(r"pub struct (\w+) \{(.*?)\n\}", gen_rs, re.S):
            for fm in re.finditer(r"#\[prost\(([^\]]*)\)\]\s*pub (\w+):", sm.group(2)):
                attrs = fm.group(1)
                tag = int(need(r'tag\s*=\s*"(\d+)"', attrs, f"prost tag of {sm.group(1)}.{fm.group(2)}").group(1))
                prost_tags[(sm.group(1), fm.group(2))] = (tag, attrs)
        for name, (fields, enums) in msgs.items():
            for (fname, ftype, rep, num) in fields:
                key = (name, fname)
                if key not in prost_tags:
                    raise TranslateError(f"prost struct field {name}.{fname} not found in chunk_dictionary.rs")
                if prost_tags[key][0] != num:
                    raise TranslateError(f"field number of {name}.{fname}: proto {num} vs prost {prost_tags[key][0]}")
                attrs = prost_tags[key][1]
                kind = attrs.split(",")[0].strip()
                exp = {"bytes": "bytes", "string": "string", "uint32": "uint32", "uint64": "uint64"}.get(ftype)
                if ftype.startswith("map<"):
                    if not kind.startswith("btree_map") and not kind.startswith("map") and "map" not in attrs:
                        raise TranslateError(f"{name}.{fname}: proto map vs prost {attrs}")
                elif exp is not None:
                    if not kind.startswith(exp):
                        raise TranslateError(f"{name}.{fname}: proto {ftype} vs prost {attrs}")
        def fnum(msg, field):
            for (fname, ftype, rep, num) in msgs[msg][0]:
                if fname == field:
                    return num
            raise TranslateError(f"proto field {msg}.{field} not found")
        def ftype(msg, field):
            for (fname, ft, rep, num) in msgs[msg][0]:
                if fname == field:
                    return ft, rep
            raise TranslateError(f"proto field {msg}.{field} not found")
        schema = [
            ("ChunkDescriptor", "checksum", "bytes", False), ("ChunkDescriptor", "archive_size", "uint32", False),
            ("ChunkDescriptor", "archive_offset", "uint64", False), ("ChunkDescriptor", "source_size", "uint32", False),
            ("ChunkerParameters", "chunk_filter_bits", "uint32", False), ("ChunkerParameters", "min_chunk_size", "uint32", False),
            ("ChunkerParameters", "max_chunk_size", "uint32", False), ("ChunkerParameters", "rolling_hash_window_size", "uint32", False),
            ("ChunkerParameters", "chunk_hash_length", "uint32", False), ("ChunkerParameters", "chunking_algorithm", "ChunkingAlgorithm", False),
            ("ChunkCompression", "compression", "CompressionType", False), ("ChunkCompression", "compression_level", "uint32", False),
            ("ChunkDictionary", "application_version", "string", False), ("ChunkDictionary", "source_checksum", "bytes", False),
            ("ChunkDictionary", "source_total_size", "uint64", False), ("ChunkDictionary", "chunker_params", "ChunkerParameters", False),
            ("ChunkDictionary", "chunk_compression", "ChunkCompression", False), ("ChunkDictionary", "rebuild_order", "uint32", True),
            ("ChunkDictionary", "chunk_descriptors", "ChunkDescriptor", True), ("ChunkDictionary", "metadata", "map<string,bytes>", False),
        ]
        for (m, f, t, rep) in schema:
            ft, r = ftype(m, f)
            if ft != t or r != rep:
                raise TranslateError(f"proto field {m}.{f}: expected {'repeated ' if rep else ''}{t}, found {'repeated ' if r else ''}{ft}")
            w(f"Definition F_{m}_{f} : N := {fnum(m, f)}.")
        for (m, e, names) in [("ChunkerParameters", "ChunkingAlgorithm", ["BUZHASH", "ROLLSUM", "FIXED_SIZE"]),
                              ("ChunkCompression", "CompressionType", ["NONE", "LZMA", "ZSTD", "BROTLI"])]:
            en = dict(msgs[m][1].get(e, []))
            for n in names:
                if n not in en:
                    raise TranslateError(f"enum value {e}.{n} not found")
                w(f"Definition E_{e}_{n} : N := {en[n]}.")
            if len(en) != len(names):
                raise TranslateError(f"enum {e} has unexpected values {sorted(en)}")
        # every field of the proto is in the schema table above (no unmodelled field)
        for name, (fields, enums) in msgs.items():
            for (fname, ft, rep, num) in fields:
                if not any(m == name and f == fname for (m, f, t, r) in schema):
                    raise TranslateError(f"proto field {name}.{fname} is not modelled")


    _run_section('proto', _sec_proto, sections, broken, facts, ctx, snapshot)
    def _sec_levels(w, facts, ctx):
        # ---- compression levels / hash length range (cli) --------------------------------
        comp = src("bitar/src/compression.rs")
        bl = int(need(r"CompressionAlgorithm::Brotli => (\d+),", comp, "brotli max_level").group(1))
        w(f"Definition BROTLI_MAX_LEVEL : N := {bl}.")


    _run_section('levels', _sec_levels, sections, broken, facts, ctx, snapshot)
    def _sec_versions(w, facts, ctx):
        # ---- package versions recorded in archives ------------------------------------------
        for name, path in (("LIB", "bitar/Cargo.toml"), ("CLI", "Cargo.toml")):
            t = src(path)
            v = need(r'\[package\][^\[]*?\nversion\s*=\s*"([^"]+)"', t, f"package version in {path}").group(1)
            w(f"Definition PKG_VERSION_{name} : list N := [" + "; ".join(str(b) for b in v.encode()) + "].")


    _run_section('versions', _sec_versions, sections, broken, facts, ctx, snapshot)
    def _sec_cloneflags(w, facts, ctx):
        # ---- command flag expressions ------------------------------------------------------
        cl = src("src/clone_cmd.rs")
        blk = need(r"OpenOptions::new\(\)((?:(?!OpenOptions::new)[^;])*?)\.open\(&opts\.output\)", strip_comments(cl),
                   "clone output OpenOptions").group(1)
        cfields = {"force_create": "c_force_create", "seed_output": "c_seed_output", "verify_output": "c_verify_output"}
        fl = open_options(blk, cfields, cl)
        w("")
        w("Record clone_flags := { c_force_create : bool; c_seed_output : bool; c_verify_output : bool }.")
        for k in ("write", "read", "create", "create_new", "truncate", "append"):
            w(f"Definition clone_open_{k} (o : clone_flags) : bool := {fl.get(k, 'false')}.")
        cm = src("src/compress_cmd.rs")
        cm = strip_comments(cm)
        blk = need(r"OpenOptions::new\(\)((?:(?!OpenOptions::new)[^;])*?)\.open\(&opts\.output\)", cm,
                   "compress output OpenOptions").group(1)
        fl = open_options(blk, {"force_create": "z_force_create"}, cm)
        w("Record compress_flags := { z_force_create : bool }.")
        for k in ("write", "read", "create", "create_new", "truncate", "append"):
            w(f"Definition compress_open_{k} (o : compress_flags) : bool := {fl.get(k, 'false')}.")
        # the other OpenOptions of the file: the temporary chunk file (whatever the path expression is called)
        chains = [c for c in re.findall(r"OpenOptions::new\(\)((?:(?!OpenOptions::new)[^;])*?)\.open\(([^)]*)\)", cm) if "opts.output" not in c[1]]
        if len(chains) != 1:
            raise TranslateError(f"compress temp OpenOptions: expected one OpenOptions besides the output's, found {len(chains)}")
        blk = chains[0][0]
        fl = open_options(blk, {})
        for k in ("write", "read", "create", "create_new", "truncate", "append"):
            w(f"Definition temp_open_{k} : bool := {fl.get(k, 'false')}.")


    _run_section('cloneflags', _sec_cloneflags, sections, broken, facts, ctx, snapshot)
    def _sec_clonesteps(w, facts, ctx):
        cl = src("src/clone_cmd.rs")
        # ---- order of effectful steps of clone_archive --------------------------------------
        cl = strip_comments(cl)
        bodies = fn_bodies(cl)
        if "clone_archive" not in bodies:
            raise TranslateError("anchor not found: clone_archive body")
        # helpers of the same file are inlined at their call sites, so that a step moved into a helper is still seen where it runs
        body = expand_calls(bodies["clone_archive"], bodies, ("clone_archive",))
        steps = [
            ("TryInit", r"Archive::try_init\("),
            ("PrintArchive", r"print_archive\("),
            ("HeaderCheck", r"opts\.header_checksum"),
            ("OpenOutput", r"OpenOptions::new\(\)"),
            ("BlockDevCheck", r"is_block_dev\("),
            ("ScanOutput", r"chunk_index_from_readable\("),
            ("Reorder", r"\.reorder_in_place\("),
            ("SeedStdin", r"opts\.seed_stdin"),
            ("SeedFiles", r"opts\.seed_files"),
            ("FetchArchive", r"clone_from_archive\("),
            ("SetLen", r"\.set_len\("),
            ("VerifyOutput", r"if opts\.verify_output"),
        ]
        pos = []
        for tag, pat in steps:
            m = re.search(pat, body)
            if not m:
                raise TranslateError(f"clone_archive step anchor not found: {tag}")
            pos.append((m.start(), tag))
        order = [t for _, t in sorted(pos)]
        w("")
        w("Inductive clone_step := " + " | ".join(t for t, _ in steps) + ".")
        w("Definition clone_step_order : list clone_step := [" + "; ".join(order) + "].")
        # set_len guarded by !output_is_block_dev
        need(r"if !output_is_block_dev \{[^}]*\.set_len\(", body, "set_len guarded by !output_is_block_dev")
        w("Definition set_len_only_regular : bool := true.")
        # seek to start before scanning the output (F3 repair): present?
        m1, m2 = re.search(r"\bis_block_dev\b", body), re.search(r"\bchunk_index_from_readable\b", body)
        if not m1 or not m2 or m2.start() < m1.start():
            raise TranslateError("anchor not found: block device test before the scan of the output")
        scan_region = body[m1.start():m2.start()]
        fs_fn = need(r"async fn file_size\(file: &mut File\)(.*?)\n}\n", cl, "file_size").group(1)
        rewinds = bool(re.search(r"seek\(SeekFrom::Start\(0\)\)|rewind\(\)", scan_region)) or \
            bool(re.search(r"SeekFrom::End\(0\)\)\.await\?;.*SeekFrom::Start\(0\)", fs_fn, re.S))
        w(f"Definition blockdev_rewinds_before_scan : bool := {'true' if rewinds else 'false'}.")
        facts["blockdev_rewinds_before_scan"] = rewinds

        # the output file is flushed (last write awaited, its error reported) before set_len / success
        mt = re.search(r"\.into_inner\(\)", body)
        if not mt:
            raise TranslateError("anchor not found: CloneOutput::into_inner before the output is finished")
        tail = body[mt.start():]
        pre_setlen = tail[:tail.find(".set_len(")] if ".set_len(" in tail else tail
        # (only flush/shutdown return a stashed write error: tokio's sync_all/sync_data/set_len wait for the write in
        #  flight but keep its error for a later call -- Model/OutFile.v)
        flushes = bool(re.search(r"\w*file\w*\s*\.(flush|shutdown)\(\)\s*\.await", pre_setlen))
        w(f"Definition clone_flushes_output : bool := {'true' if flushes else 'false'}.")
        facts["clone_flushes_output"] = flushes
        # the clone command removes, renames, links or copies no file, and opens files for writing only through the one
        # OpenOptions of the output
        clc = strip_comments(cl)
        m = re.search(r"remove_file|remove_dir|rename\(|hard_link|symlink|fs::copy|File::create|create_dir|set_permissions", clc)
        w(f"Definition clone_source_touches_no_other_file : bool := {'false' if m else 'true'}.")
        chains = re.findall(r"OpenOptions::new\(\)(.*?)\.open\(", clc, re.S)
        nopen = len([c for c in chains if re.search(r"\.(write|create|create_new|append|truncate)\(", c)])
        w(f"Definition clone_open_options_count : N := {nopen}.   (* OpenOptions that can write or create *)")


    _run_section('clonesteps', _sec_clonesteps, sections, broken, facts, ctx, snapshot)
    def _sec_compresssteps(w, facts, ctx):
        cm = src("src/compress_cmd.rs")
        # ---- order of effectful steps of compress_cmd -----------------------------------------
        cm = strip_comments(cm)
        cbodies = fn_bodies(cm)
        if "compress_cmd" not in cbodies:
            raise TranslateError("anchor not found: compress_cmd body")
        cbody = expand_calls(cbodies["compress_cmd"], cbodies, ("compress_cmd",))
        # (local names are not anchors: the header buffer is whatever `header::build(..)` is bound to)
        hv = re.search(r"let\s+(?:mut\s+)?(\w+)\s*(?::[^=;]+)?=\s*[^;]*?header::build\(", cbody)
        hvar = hv.group(1) if hv else r"header\w*"
        csteps = [
            ("ZOpenOutput", r"OpenOptions::new\(\)[^;]*?\.open\(&opts\.output\)"),
            ("ZChunkInput", r"chunk_input\("),
            ("ZBuildHeader", r"header::build\("),
            ("ZWriteHeader", r"\.write_all\(&" + hvar + r"\b"),
            ("ZCopyTemp", r"io::copy\("),
            ("ZRemoveTemp", r"remove_file\(&opts\.temp_file\)"),
            ("ZPrintInfo", r"print_archive_reader\("),
        ]
        pos = []
        for tag, pat in csteps:
            m = re.search(pat, cbody)
            if not m:
                raise TranslateError(f"compress_cmd step anchor not found: {tag}")
            pos.append((m.start(), tag))
        order = [t for _, t in sorted(pos)]
        w("Inductive compress_step := " + " | ".join(t for t, _ in csteps) + ".")
        w("Definition compress_step_order : list compress_step := [" + "; ".join(order) + "].")


    _run_section('compresssteps', _sec_compresssteps, sections, broken, facts, ctx, snapshot)
    def _sec_pincheck(w, facts, ctx):
        cl = strip_comments(src("src/clone_cmd.rs"))
        # ---- --verify-header: the condition under which the clone is refused, as a boolean term over what the
        # two comparisons in it observe (HashSum equality compares the common prefix only). The check may be
        # written inline in clone_archive or in a helper taking (expected, actual). ---------------------------
        pb = fn_bodies(cl)
        if "clone_archive" not in pb:
            raise TranslateError("anchor not found: clone_archive body")
        body = pb["clone_archive"]
        bind = need(r"if let Some\((?:ref )?(\w+)\) = &?opts\.header_checksum", body, "binding of the expected header checksum")
        exp_name = bind.group(1)
        m = re.search(r"if ([^{}]*?)\{\s*return Err\(anyhow!\(\"Header checksum mismatch\"\)\);", cl, re.S)
        if not m:
            raise TranslateError("anchor not found: header checksum mismatch condition")
        cond = re.sub(r"\s+", " ", m.group(1)).strip()
        if m.start() >= cl.find("async fn clone_archive<R>") and m.start() < cl.find("async fn clone_archive<R>") + len(body) + 60:
            e_name, a_expr = exp_name, r"\w+\.header_checksum\(\)"
        else:
            # inside a helper: fn NAME(p1: &HashSum, p2: &HashSum) called as NAME(<expected>, archive.header_checksum())
            fn = None
            for f in re.finditer(r"fn (\w+)\((\w+): &HashSum, (\w+): &HashSum\)[^{]*\{", cl):
                if f.end() <= m.start():
                    fn = f
            if fn is None:
                raise TranslateError("header checksum condition is in a function of unknown shape")
            need(fn.group(1) + r"\(\s*" + exp_name + r",\s*\w+\.header_checksum\(\)\s*\)", body,
                 "call of the header checksum helper with (expected, actual)")
            e_name, a_expr = fn.group(2), re.escape(fn.group(3))
        E, A = r"\*?" + e_name, r"\*?" + a_expr
        cond = re.sub(rf"{E}\.len\(\) != {A}\.len\(\)|{A}\.len\(\) != {E}\.len\(\)", "opts.len_differs", cond)
        cond = re.sub(rf"{E} != {A}|{A} != {E}", "opts.prefix_differs", cond)
        term = bool_expr(cond, {"len_differs": "pin_len_differs", "prefix_differs": "pin_prefix_differs"})
        w("Record pin_obs := { pin_len_differs : bool; pin_prefix_differs : bool }.")
        w(f"Definition pin_refuses (o : pin_obs) : bool := {term}.")
        # nothing touches the output before this check
        before = body[:body.find("opts.header_checksum")]
        if re.search(r"OpenOptions|File::create|remove_file|rename\(", before):
            raise TranslateError("a file operation precedes the header checksum check")
        w("Definition pin_checked_before_output : bool := true.")


    _run_section('pincheck', _sec_pincheck, sections, broken, facts, ctx, snapshot)
    def _sec_pipeline(w, facts, ctx):
        cl = src("src/clone_cmd.rs")
        cm = src("src/compress_cmd.rs")
        # ---- pipeline shape: every concurrent stage is `buffered` (ordered) ------------------
        def stages(text, what):
            combos = re.findall(r"\.(buffered|buffer_unordered|for_each_concurrent|flat_map_unordered)\(", text)
            if not combos:
                raise TranslateError(f"no concurrent stream stage found in {what}")
            return combos
        lib = src("bitar/src/api/compress.rs")
        lib = strip_comments(lib)
        cm = strip_comments(cm)
        lb, cb = fn_bodies(lib), fn_bodies(cm)
        if "create_archive" not in lb or "chunk_input" not in cb:
            raise TranslateError("anchor not found: create_archive / chunk_input body")
        lib_fn = expand_calls(lb["create_archive"], lb, ("create_archive",))
        cli_fn = expand_calls(cb["chunk_input"], cb, ("chunk_input",))
        allst = {"lib_writer": stages(lib_fn, "create_archive"), "cli_writer": stages(cli_fn, "chunk_input"),
                 "clone_feeders": stages(cl, "clone_cmd.rs")}
        for k, v in allst.items():
            w(f"Definition {k}_stages_ordered : bool := {'true' if all(x == 'buffered' for x in v) else 'false'}.")
            w(f"Definition {k}_stage_count : N := {len(v)}.")
        facts["stages"] = allst
        # the only source of concurrency in the writers and in the clone command is spawn_blocking inside those ordered
        # stages: any other construct (spawned tasks, unordered sets, channels, select/join, locks, atomics, threads)
        # would need a model of its own
        other = r"tokio::spawn|task::spawn\(|thread::spawn|FuturesUnordered|FuturesOrdered|select!|join!|join_all|try_join|mpsc|oneshot|broadcast|watch::|Mutex|RwLock|Atomic|rayon|par_iter|Semaphore|Notify"
        for name, text in (("create_archive", lib_fn), ("chunk_input", cli_fn), ("clone_cmd.rs", strip_comments(cl))):
            m = re.search(other, strip_comments(text))
            if m:
                raise TranslateError(f"concurrency construct `{m.group(0)}` in {name} is not covered by the pipeline model")
        w("Definition only_ordered_stage_concurrency : bool := true.")
        # flush/seek between last temp write and reopen of the temp file (F4)
        def temp_var(fn_text, what):
            # the variable the temporary chunk file is bound to (whatever it is called)
            m = re.search(r"let\s+(?:mut\s+)?(\w+)\s*(?::[^=;]+)?=\s*[^;]*?(?:tempfile\(|OpenOptions::new\(\))", fn_text)
            if not m:
                raise TranslateError(f"anchor not found: binding of the temporary chunk file in {what}")
            return m.group(1)
        tv = temp_var(cli_fn, "chunk_input")
        last_w = [m.start() for m in re.finditer(tv + r"\s*\.write_all\(", cli_fn)]
        if not last_w:
            raise TranslateError("anchor not found: write of chunk data to the temp file in chunk_input")
        after_loop = cli_fn[last_w[-1]:]
        cli_flush = bool(re.search(tv + r"\s*\.(flush|sync_all|sync_data|shutdown|rewind|seek)\(", after_loop))
        w(f"Definition cli_writer_flushes_temp : bool := {'true' if cli_flush else 'false'}.")
        tv = temp_var(lib_fn, "create_archive")
        last_w = [m.start() for m in re.finditer(tv + r"\s*\.write_all\(", lib_fn)]
        if not last_w:
            raise TranslateError("anchor not found: write of chunk data to the temp file in create_archive")
        after = lib_fn[last_w[-1]:]
        lib_flush = bool(re.search(tv + r"\s*\.(flush|sync_all|rewind|seek)\(", after))
        w(f"Definition lib_writer_flushes_temp : bool := {'true' if lib_flush else 'false'}.")
        facts["cli_writer_flushes_temp"] = cli_flush
        facts["lib_writer_flushes_temp"] = lib_flush
        # the executor never re-verifies what it reads back in reorder_in_place (documented fact)
        co_rs = src("bitar/src/clone_output.rs")
        facts["reorder_reverifies"] = bool(re.search(r"reorder_in_place.*\.verify\(\)", co_rs, re.S))

    _run_section('pipeline', _sec_pipeline, sections, broken, facts, ctx, snapshot)
    text = "\n".join(header_lines) + "".join(sections[n] for n, _ in SECTION_ORDER if n in sections)
    facts['broken_sections'] = broken
    return text + "\n", facts, sections

SNAPSHOT = os.path.join(os.path.dirname(os.path.abspath(__file__)), "generated_snapshot.json")


def main():
    args = [a for a in sys.argv[1:] if not a.startswith("--")]
    dest = args[0] if args else "/verif/coq/theories/Gen/Generated.v"
    snapshot = {}
    if os.path.exists(SNAPSHOT):
        snapshot = json.load(open(SNAPSHOT))
    text, facts, sections = gen(snapshot)
    if "--update-snapshot" in sys.argv:
        if facts["broken_sections"]:
            print("refusing to snapshot with broken sections", facts["broken_sections"])
            sys.exit(2)
        json.dump(sections, open(SNAPSHOT, "w"), indent=1)
        print("snapshot updated")
    missing = [n for n, _ in SECTION_ORDER if n not in sections]
    if missing:
        print(f"TRANSLATE-ERROR: sections {missing} could not be translated and no snapshot is available")
        print("FACTS " + json.dumps(facts))
        sys.exit(2)
    old = None
    if os.path.exists(dest):
        old = open(dest).read()
    if old != text:
        os.makedirs(os.path.dirname(dest), exist_ok=True)
        with open(dest + ".tmp", "w") as f:
            f.write(text)
        os.replace(dest + ".tmp", dest)
        print("generated: changed")
    else:
        print("generated: unchanged")
    for b in facts["broken_sections"]:
        print(f"TRANSLATE-SECTION-BROKEN {b['section']}: {b['error']}")
    print("FACTS " + json.dumps(facts))


if __name__ == "__main__":
    main()
