"""Per-property configuration of ./check: theorems (pinned in coq/theories/Properties/<id>.v),
correspondence suites (harness), extra model case files produced by a suite, trusted base and assumptions."""

ALLOWED_AXIOMS = set()   # goal: every property theorem is closed under the global context

PROPS = {
    "C09": {
        "theorems": ["C09_schedule_independent", "C09_stream_total", "C09_boundary_rule", "C09_tiling", "C09_sizes",
                     "C09_literal_rule_outside_known_class", "C09_literal_rule_refuted"],
        "suites": ["hash", "stream", "exh", "oneshot"],
        "extra_case_files": {"stream": ["stream-spec"]},
        "rule": "cases: per-byte hash sums (hash), small streams under scripted read schedules run through the "
                "buffer-level model with the recorded schedule and through the stateless specification (stream, "
                "stream-spec), all strings <= 7 (quick) / 9 (thorough) over a 3-letter alphabet x 8 tiny configs (exh), "
                "larger streams incl. > 1 MiB against the automaton (oneshot). non-trivial = stream longer than the "
                "window (hash) or producing >= 2 chunks; distinct = distinct case line hash",
        "assumes": ["tokio read_buf/BytesMut append exactly what the reader returns (validated by the suites)",
                    "usize is 64 bit"],
        "trusted_base": [],
        "level_text": "Theorems (Coq) about the executable model of the chunker: schedule independence of the streaming "
                      "chunker, equality with the stateless specification (first tested position whose trailing-window hash "
                      "matches, else max), tiling and size bounds; the model is tied to the code on every run by comparing "
                      "per-byte hash sums and chunk lists of the real chunker with the extracted model.",
        "level_note": "Trusted: Coq kernel, translator (table/constants), extraction + OCaml runner, Rust harness. Modelled, not "
                      "verified: rolling_hash/*.rs, chunker/*.rs (hand-written Gallina, sampled correspondence). Assumed: "
                      "tokio read_buf appends what the reader returns; 64-bit usize. Known finding F6 (BuzHash never tests "
                      "stream positions <= window) is excluded from the proved statement and reported as KNOWN-FINDING.",
    },
}


_CLONE_RULE = ("cases: exhaustive pairs of tiled layouts of <= 4 (quick) / 5 (thorough) chunks over 3 identities x size "
               "assignments plus random layouts through the public planner API (planner: stripped index, statistics and "
               "ReorderOp list compared op for op); whole library-level clones on an instrumented in-memory output "
               "(clone: tiled synthetic layouts and layouts from real chunking of edited data; with seeds; in place or "
               "not; every write index x tear {0,1,2,all} as injected fault, then a re-run in place on what the failed "
               "run left) compared on result, moved/fed counts, fetched chunk list, final bytes, full seek/read/write trace "
               "and remaining index. non-trivial = >= 2 planned ops (planner) / >= 2 writes (clone); distinct by case hash")
_CLONE_ASSUMES = ["chunks are identified by their (truncated) hash: keys of the model stand for hash sums, injective on the "
                  "chunks involved (the inherent assumption of the design)",
                  "the in-memory AsyncRead/AsyncWrite/AsyncSeek used by the harness behaves like a file (zero fill on gaps)"]
_CLONE_NOTE = ("Trusted: Coq kernel, extraction + OCaml runner, Rust harness. Modelled, not verified: chunk_index.rs, "
               "chunk_location_map.rs, chunk_offset.rs, clone_output.rs (hand-written Gallina; the planner is modelled in its "
               "recursive formulation and compared op for op with the explicit-stack implementation). Assumed: hash "
               "injectivity on the chunks involved; tokio file semantics are outside this library-level model.")

for _pid, _text, _also in [
    ("C02", "Theorem clone_exact (Coq): for every source described by the archive index, every prior output, every list of "
            "sound seed chunks, the library-level clone model ends without error, with an empty index and output = source; "
            "model tied to CloneOutput::feed / ChunkIndex by trace-exact correspondence.", []),
    ("C03", "Theorems about the in-place path: planner (strip + DFS reorder_ops) and executor proved correct for every "
            "current layout (every prior content), composed into clone_exact; the model's op list and I/O trace are compared "
            "with the implementation op for op.", []),
    ("C05", "Theorems failed_write_not_ok (any injected failing/torn write makes the run fail) and rerun_completes "
            "(corollary of clone_exact for the arbitrary bytes a failed run leaves); fault injection at every write in the "
            "correspondence suite.", []),
    ("C06", "Theorem fetch_exact: the chunks requested from the archive are exactly those not found in the prior output or "
            "seeds, in archive order; compared with the implementation's fetch list.", []),
    ("C13", "Theorem write_trace_spec: every write is one source chunk at one of its offsets, each offset once, never at an "
            "in-place occurrence, nothing beyond the source length; full write traces compared with the implementation.", []),
]:
    PROPS[_pid] = {
        "theorems": {"C02": ["C02_clone_with_seeds", "C02_seeds_irrelevant"],
                     "C03": ["C03_planner_executor_correct", "C03_inplace_exact"],
                     "C05": ["C05_failed_write_not_ok", "C05_rerun_completes"],
                     "C06": ["C06_fetch_exact"],
                     "C13": ["C13_write_trace_spec"]}[_pid],
        "suites": ["planner", "clone"], "also": _also, "rule": _CLONE_RULE, "assumes": _CLONE_ASSUMES,
        "trusted_base": [], "level_text": _text, "level_note": _CLONE_NOTE,
    }

PROPS["C10"] = {
    "theorems": ["C10_resync", "C10_resync_streams"],
    "suites": ["resync", "hash"],
    "rule": "cases: pairs of streams P1+S, P2+S (prefixes: empty, shorter than the window, zero runs, random, constant runs "
            "straddling the splice; FixedSize with aligned prefixes) chunked by the real chunker, boundaries compared after the "
            "first common boundary >= one window into S; both streams also run through the model automaton; per-byte hash "
            "sums of both hashers compared with the model and with independent pure window hashes. non-trivial = a common "
            "boundary exists",
    "assumes": PROPS["C09"]["assumes"],
    "trusted_base": [],
    "level_text": "Theorem C10_resync (Coq): on the model of the chunker (automaton with carried hasher state, proved equal to the "
                  "stateless specification using the purity theorems of both rolling hashes) two streams with a common suffix and "
                  "a common boundary at least one window into it have identical later chunks; also under any read schedules.",
    "level_note": PROPS["C09"]["level_note"],
}

HOOK_COMMITS = ["8bc8c25"]

_PENDING = "check not built yet in this round (see DESIGN.md section 8); no technique switch is implied"
NOT_APPLICABLE = [{"property_id": f"C{i:02d}", "reason": _PENDING} for i in range(1, 18)]

