"""Per-property configuration of ./check: theorems (pinned in coq/theories/Properties/<id>.v),
correspondence suites (harness), extra model case files produced by a suite, trusted base and assumptions."""

ALLOWED_AXIOMS = set()   # goal: every property theorem is closed under the global context

PROPS = {
    "C09": {
        "theorems": ["C09_schedule_independent", "C09_stream_total", "C09_boundary_rule", "C09_tiling", "C09_sizes",
                     "C09_literal_rule_outside_known_class", "C09_literal_rule_refuted"],
        "suites": ["hash", "stream", "exh", "oneshot"],
        "extra_case_files": {"stream": ["stream-spec"]},
        "rule": "cases: per-byte hash sums (hash), small streams under scripted read schedules run through the "
                "buffer-level model with the recorded schedule and through the stateless specification (stream, "
                "stream-spec), all strings <= 7 (quick) / 9 (thorough) over a 3-letter alphabet x 8 tiny configs (exh), "
                "larger streams incl. > 1 MiB against the automaton (oneshot). non-trivial = stream longer than the "
                "window (hash) or producing >= 2 chunks; distinct = distinct case line hash",
        "assumes": ["tokio read_buf/BytesMut append exactly what the reader returns (validated by the suites)",
                    "usize is 64 bit"],
        "trusted_base": [],
        "level_text": "Theorems (Coq) about the executable model of the chunker: schedule independence of the streaming "
                      "chunker, equality with the stateless specification (first tested position whose trailing-window hash "
                      "matches, else max), tiling and size bounds; the model is tied to the code on every run by comparing "
                      "per-byte hash sums and chunk lists of the real chunker with the extracted model.",
        "level_note": "Trusted: Coq kernel, translator (table/constants), extraction + OCaml runner, Rust harness. Modelled, not "
                      "verified: rolling_hash/*.rs, chunker/*.rs (hand-written Gallina, sampled correspondence). Assumed: "
                      "tokio read_buf appends what the reader returns; 64-bit usize. Known finding F6 (BuzHash never tests "
                      "stream positions <= window) is excluded from the proved statement and reported as KNOWN-FINDING.",
    },
}


_CLONE_RULE = ("cases: exhaustive pairs of tiled layouts of <= 4 (quick) / 5 (thorough) chunks over 3 identities x size "
               "assignments plus random layouts through the public planner API (planner: stripped index, statistics and "
               "ReorderOp list compared op for op); whole library-level clones on an instrumented in-memory output "
               "(clone: tiled synthetic layouts and layouts from real chunking of edited data; with seeds; in place or "
               "not; every write index x tear {0,1,2,all} as injected fault, then a re-run in place on what the failed "
               "run left) compared on result, moved/fed counts, fetched chunk list, final bytes, full seek/read/write trace "
               "and remaining index. non-trivial = >= 2 planned ops (planner) / >= 2 writes (clone); distinct by case hash")
_CLONE_ASSUMES = ["chunks are identified by their (truncated) hash: keys of the model stand for hash sums, injective on the "
                  "chunks involved (the inherent assumption of the design)",
                  "the in-memory AsyncRead/AsyncWrite/AsyncSeek used by the harness behaves like a file (zero fill on gaps)"]
_CLONE_NOTE = ("Trusted: Coq kernel, extraction + OCaml runner, Rust harness. Modelled, not verified: chunk_index.rs, "
               "chunk_location_map.rs, chunk_offset.rs, clone_output.rs (hand-written Gallina; the planner is modelled in its "
               "recursive formulation and compared op for op with the explicit-stack implementation). Assumed: hash "
               "injectivity on the chunks involved; tokio file semantics are outside this library-level model.")

for _pid, _text, _also in [
    ("C02", "Theorem clone_exact (Coq): for every source described by the archive index, every prior output, every list of "
            "sound seed chunks, the library-level clone model ends without error, with an empty index and output = source; "
            "C02_clone_bytes_any_seeds: the same over raw bytes -- seeds and old output are arbitrary byte strings scanned "
            "with the archive's chunker and hashed, the whole command yields exactly the source (assumption: no collision "
            "of the truncated hash on the chunks looked at). Models tied to CloneOutput::feed / ChunkIndex by trace-exact "
            "correspondence and to the clone_archive pipeline by the cbytes suite.", []),
    ("C03", "Theorems about the in-place path: planner (strip + DFS reorder_ops) and executor proved correct for every "
            "current layout (every prior content), composed into clone_exact; C03_inplace_bytes_exact: for every prior CONTENT "
            "(bytes), scanned with the archive's chunker, re-ordered, completed and resized, the result is the source; the "
            "model's op list and I/O trace are compared with the implementation op for op.", []),
    ("C05", "Theorems failed_write_not_ok (any injected failing/torn write makes the run fail) and rerun_completes "
            "(corollary of clone_exact for the arbitrary bytes a failed run leaves); fault injection at every write in the "
            "correspondence suite.", []),
    ("C06", "Theorem fetch_exact: the chunks requested from the archive are exactly those not found in the prior output or "
            "seeds, in archive order; C06_fetch_exact_bytes: over raw bytes (old output and seeds scanned with the archive's "
            "chunker) the fetched descriptors are exactly those whose checksum is the truncated hash of no scanned chunk, each "
            "once; compared with the implementation's fetch list and, for the binary, the Range requests it sends.", []),
    ("C13", "Theorem write_trace_spec: every write is one source chunk at one of its offsets, each offset once, never at an "
            "in-place occurrence, nothing beyond the source length; C13_write_economy_bytes: the same over raw bytes for the "
            "whole command (scan of the old output included); full write traces compared with the library and the write "
            "system calls of the bita binary (strace) with the model's write list.", []),
]:
    PROPS[_pid] = {
        "theorems": {"C02": ["C02_clone_with_seeds", "C02_seeds_irrelevant", "C02_clone_bytes_any_seeds", "C02_clone_bytes_any_archive", "C02_clone_phases_in_model_order",
                             "C02_hash_keyed_index_refines_add",
                             "C02_hash_keyed_index_refines_remove", "C02_hash_keyed_index_refines_contains",
                             "C02_lookup_truncates_consistently"],
                     "C03": ["C03_planner_executor_correct", "C03_inplace_exact", "C03_inplace_bytes_exact",
                             "C03_old_output_irrelevant_bytes", "C03_clone_phases_in_model_order", "C03_explicit_stack_planner_is_recursive_planner"],
                     "C05": ["C05_failed_write_not_ok", "C05_rerun_completes", "C05_rerun_on_any_leftover_bytes", "C05_output_file_reports_failed_write",
                             "C05_unflushed_would_lose_last_error"],
                     "C06": ["C06_fetch_exact", "C06_archive_fetch_exact", "C06_fetch_exact_bytes"],
                     "C13": ["C13_write_trace_spec", "C13_write_economy_bytes"]}[_pid],
        "suites": ["planner", "clone"] + (["cliclone"] if _pid in ("C02", "C03", "C06") else []) + (["clifault"] if _pid == "C05" else [])
                  + (["hashkey"] if _pid == "C02" else []) + (["cbytes"] if _pid in ("C02", "C03") else []) + (["cliwrites"] if _pid in ("C03", "C13") else []) + (["http"] if _pid == "C06" else []),
        "extra_case_files": {"planner": ["planner-iter"]},
        "needs_cli": _pid in ("C02", "C03", "C06", "C05", "C13"), "also": _also, "rule": _CLONE_RULE, "assumes": _CLONE_ASSUMES,
        "trusted_base": [], "level_text": _text, "level_note": _CLONE_NOTE,
    }

PROPS["C10"] = {
    "theorems": ["C10_resync", "C10_resync_streams"],
    "suites": ["resync", "hash"],
    "rule": "cases: pairs of streams P1+S, P2+S (prefixes: empty, shorter than the window, zero runs, random, constant runs "
            "straddling the splice; FixedSize with aligned prefixes) chunked by the real chunker, boundaries compared after the "
            "first common boundary >= one window into S; both streams also run through the model automaton; per-byte hash "
            "sums of both hashers compared with the model and with independent pure window hashes. non-trivial = a common "
            "boundary exists",
    "assumes": PROPS["C09"]["assumes"],
    "trusted_base": [],
    "level_text": "Theorem C10_resync (Coq): on the model of the chunker (automaton with carried hasher state, proved equal to the "
                  "stateless specification using the purity theorems of both rolling hashes) two streams with a common suffix and "
                  "a common boundary at least one window into it have identical later chunks; also under any read schedules.",
    "level_note": PROPS["C09"]["level_note"],
}

_ARCH_NOTE = ("Trusted: Coq kernel, translator (constants, magic, field numbers cross-checked between the .proto and the prost "
              "attributes), extraction + OCaml runner, Rust harness incl. its independent protobuf writer/parser. Modelled, not "
              "verified: header.rs, archive.rs, chunk.rs (decompress/verify rule), chunk_dictionary.rs as generated by prost 0.13 "
              "(hand-written Gallina mirror of prost's encode/merge loops). Assumed: Blake2b-512 is a function `H` with the "
              "stated injectivity hypotheses; brotli is an oracle; prost implements the protobuf wire format as mirrored.")
PROPS["C07"] = {
    "theorems": ["C07_runs_spec", "C07_requests_are_maximal_runs", "C07_clone_requests_end_to_end", "C07_nothing_found_one_request"],
    "suites": ["http", "cliclone"], "needs_cli": True,
    "rule": "cases: all 64 subsets of a 6-chunk archive and random chunk lists (adjacent, gapped, unordered) fetched by the real "
            "HttpReader from a scripted raw-TCP server that logs every Range header; requests compared with the model and with "
            "independently computed maximal runs; CLI clones over http with seeds/in-place compared with the expected runs. "
            "non-trivial = >= 2 requests",
    "assumes": ["reqwest/hyper/TCP deliver what the scripted server sends (black box between script and state machine)",
                "end-to-end request theorems: no chunk is stored as zero bytes (a zero-sized range is completed without a request; "
                "computed counterexample in Proofs/CloneHttp.v); exactness of delivered bytes is stated for servers that answer "
                "with bytes of the requested range (a server sending MORE than asked makes the next chunk wrong: "
                "extra_bytes_counterexample -- the clone is protected by the hash check, C04)"],
    "trusted_base": [],
    "level_text": "Theorem C07_requests_are_maximal_runs (Coq): for every archive, chunk list and retry budget, without transfer "
                  "failures the request sequence of the ChunkReader model is exactly one request per maximal run of adjacent "
                  "chunks (runs characterised by C07_runs_spec); Range headers of the real reader compared with the model.",
    "level_note": "Trusted: Coq kernel, extraction + runner, harness with scripted TCP server. Modelled, not verified: "
                  "http_reader.rs, http_range_request.rs. Assumed: the HTTP transport (reqwest, hyper, TCP).",
}
PROPS["C08"] = {
    "theorems": ["C08_http_items_exact", "C08_retry_resumes_at_first_missing_byte", "C08_retries_suffice", "C08_io_reader_exact", "C08_stream_complete_or_error", "C08_clone_over_unreliable_server"],
    "suites": ["http", "ioread", "httpclone"],
    "rule": "cases: scripted server behaviours per request (refuse, cut after k bytes incl. 0, short clean end, extra bytes, wrong "
            "bytes, ok) x retry budgets 0..3 x chunk lists, read_chunks and read_at; local reader over a scripted file with "
            "short reads of any size and Pending at any poll, incl. ranges past EOF; items and request logs compared with the "
            "model. non-trivial = >= 2 requests (http) / >= 2 ranges (local)",
    "assumes": PROPS["C07"]["assumes"],
    "trusted_base": [],
    "level_text": "Theorems (Coq) over the reader state-machine models: items are exactly the requested bytes in order followed by at "
                  "most one final error, for every honest server script; every retry starts at the first byte not yet received "
                  "and ends at the same byte; with no more failures than the retry budget everything is delivered; the local "
                  "reader is exact under every read schedule.",
    "level_note": PROPS["C07"]["level_note"] + " io_reader.rs modelled as well.",
}
PROPS["C12"] = {
    "theorems": ["C12_input_delivery_irrelevant", "C12_ordered_stage", "C12_pipeline_deterministic",
                 "C12_flushed_temp_file_complete", "C12_source_facts"],
    "suites": ["compress", "clirt"], "needs_cli": True,
    "rule": "cases: library writer run 3x per case with buffered-chunks in {1,2,3,8,64} and scripted input fragmentation, CLI "
            "writer run 2x (file vs pipe, different buffering); all outputs must be byte-identical to each other and to the "
            "model's archive bytes. non-trivial = archive > 200 bytes",
    "assumes": ["futures::StreamExt::buffered yields results in submission order (FuturesOrdered; modelled by Model/Pipeline.v)",
                "tokio fs::File: a write may still be in flight after write_all returns; flush waits for it (Model/Pipeline.v afile)",
                "thread scheduling itself is not enumerated: the theorems quantify over all completion schedules of the model"],
    "trusted_base": [],
    "level_text": "Theorems (Coq): chunking does not depend on input delivery (C09), an ordered stage yields the sequential result "
                  "under every completion schedule and window, hence the two-stage pipeline is a fixed function; a flushed temp "
                  "file is complete when re-opened. The premises 'every concurrent stage is buffered' and 'the temp file is "
                  "flushed' are recomputed from the source into Generated.v on every run. Partial: the tokio/futures runtime "
                  "semantics are assumed in the model and only sampled by repeated runs.",
    "level_note": "Trusted: Coq kernel, translator (pipeline shape, flush facts), extraction + runner, harness. Modelled: "
                  "api/compress.rs, compress_cmd.rs. Assumed: futures `buffered` ordering, tokio blocking-pool file semantics.",
}
PROPS["C14"] = {
    "theorems": ["C14_refusal_leaves_output_clone", "C14_refusal_leaves_output_compress", "C14_pin_mismatch_refused", "C14_pin_checked_before_output",
                 "C14_clone_refusal_exact", "C14_compress_refusal_exact"],
    "suites": ["clirefuse", "tryinit"], "needs_cli": True,
    "rule": "which archives are refused at open is the reader model's decision (tryinit suite: hostile-but-checksummed, flipped, truncated headers, model vs Archive::try_init); the full matrix {clone, compress} x output {absent, regular file, block device too small / large enough (hook)} x "
            "{--force-create, --seed-output, neither} x archive {valid, invalid, pinned checksum mismatch, prefix pin, empty pin, "
            "matching pin}: exit status, content, existence before/after, extra files; exhaustive. non-trivial = every cell",
    "assumes": ["POSIX open(2) semantics for O_CREAT/O_EXCL/O_TRUNC (compared with the real OpenOptions on regular paths by the openopts lines of clirefuse; assumed for block devices)", "the is_block_dev hook (cfg oll3_bita_verif) stands for a real device"],
    "trusted_base": [],
    "level_text": "Theorems (Coq) over the command model whose step order and OpenOptions flag expressions are regenerated from the "
                  "source on every run: every refusal (existing output without overwrite/in-place, invalid archive, pinned header "
                  "mismatch, device too small) ends failed with the output entry unchanged; for archive/header refusals nothing is "
                  "opened at all. The real binary is run over the full matrix and compared with the model.",
    "level_note": "Trusted: Coq kernel, translator (step order anchors, flag expressions), extraction + runner, harness. Modelled: "
                  "clone_cmd.rs / compress_cmd.rs orchestration (Model/Cmd.v). Assumed: POSIX open semantics; OS effects are outside "
                  "the proof and observed on the real binary.",
}
PROPS["C16"] = {
    "theorems": ["C16_clone_effects", "C16_compress_effects", "C16_clone_source_touches_no_other_file",
                 "C16_clone_trace_shape", "C16_compress_failed_no_temp"],
    "suites": ["clitrace", "clirt", "clirefuse"], "needs_cli": True,
    "rule": "strace -f of the real binary in all clone modes (plain, seed file, stdin seed, in place, http, verify) and compress "
            "modes (file, stdin, force): canonical list of paths opened with write/create/truncate, unlinked or renamed inside "
            "the scenario directory, and directory listings before/after, compared with the model's effect trace",
    "assumes": ["files touched by dependencies outside the scenario directory (resolver, TLS roots) are read-only and filtered by path"],
    "trusted_base": ["strace"],
    "level_text": "Theorems (Coq) over the command model (finite case analysis re-checked against the regenerated flag expressions "
                  "and step order): a clone opens only the output for writing, never truncates it at open, unlinks nothing; a "
                  "successful compress creates the temp file and the archive and removes the temp file. System calls of the real "
                  "process are compared with the model's effect trace.",
    "level_note": PROPS["C14"]["level_note"],
}
PROPS["C15"] = {
    "theorems": ["C15_open_total", "C15_open_total_any_reader", "C15_accepted_archive_safe", "C15_scan_total", "C15_http_clone_total"],
    "suites": ["protodec", "tryinit", "hostile", "corrupt", "http", "clicorrupt", "httpclone"], "needs_cli": True,
    "rule": "cases: dictionary bytes (conforming, free-form, mutated, random, nested groups around the recursion limit) through "
            "the real prost decoder vs the model; archives with checksummed hostile fields (indexes, offsets, sizes, chunker "
            "parameters incl. 0 and extremes, enums, missing sub-messages, dictionary size field) through Archive::try_init vs the "
            "model; full clone pipeline (index, seed scan, fetch, decompress, verify) over hostile archives, bit flips, "
            "truncations and misbehaving servers under catch_unwind with a watchdog; the bita binary on damaged archives "
            "(exit status 0 or 1 only); a decompression bomb in a child process (peak memory). non-trivial = accepted or reaching the "
            "later phases",
    "assumes": ["memory safety is Rust's (#![forbid(unsafe_code)])", "panics inside dependencies (prost, brotli, reqwest) are only sampled"],
    "trusted_base": [],
    "level_text": "Theorems (Coq): with every potential panic an explicit outcome of the model and every loop fuelled, opening any "
                  "byte string ends in Ok/Err; an accepted archive has a valid chunker configuration (so scanning never panics and "
                  "terminates, C09), in-range rebuild indexes, addressable chunk ranges, and printing it succeeds. The models are "
                  "compared with the implementation on hostile inputs; later phases are exercised under a watchdog.",
    "level_note": _ARCH_NOTE,
}
PROPS["C04"] = {
    "theorems": ["C04_header_accept_implies", "C04_header_only", "C04_pinned_header_identity", "C04_payload_tamper_safe",
                 "C04_pin_proceeds_only_if_equal", "C04_pin_checked_before_output", "C04_http_clone_any_server"],
    "suites": ["tryinit", "corrupt", "clirefuse", "clicorrupt", "httpclone"], "needs_cli": True,
    "rule": "cases: every single-bit flip and every truncation length of a small archive (exhaustive), sampled flips/truncations, "
            "payload swaps, overwrites, deletions, trailing garbage on larger ones, with and without seeds; scripted servers "
            "returning wrong bytes, short bodies, extra bytes, cuts; --verify-header with mismatching / prefix / empty / matching "
            "values; the bita binary itself (clicorrupt) on truncated / flipped / swapped / overwritten / shortened archives from "
            "a file and over http, with and without a seed and --verify-output. Oracle: error, or output identical to the "
            "source; header changes rejected at open; local CLI cases also compared with the model's open_and_clone",
    "assumes": ["collision / second-preimage resistance of Blake2b-512 appears as explicit injectivity hypotheses", "hash length >= 8"],
    "trusted_base": [],
    "level_text": "Theorems (Coq): acceptance of arbitrary bytes implies the stored header hash equals the hash of the preceding "
                  "bytes; the accepted archive depends on the header bytes only; equal (full length) header checksums imply "
                  "byte-identical headers absent a hash collision; payload tampering: every accepted chunk went through "
                  "decompress -> hash verification (see C04_payload_tamper_safe when present).",
    "level_note": _ARCH_NOTE,
}
PROPS["C11"] = {
    "theorems": ["C11_decode_encode_dict", "C11_compress_conforming", "C11_header_layout", "C11_archive_is_header_then_chunks", "C11_archive_file_starts_empty",
                 "C11_reader_reports_writer"],
    "suites": ["protoenc", "compress", "clirt"], "needs_cli": True,
    "rule": "cases: random dictionaries through prost's encoder vs the model encoder (byte exact); library and CLI writers on "
            "generated sources/configs vs the model's archive bytes (byte exact, hash and compressed payload tables supplied by "
            "the harness) and through an independent parser checking every clause of the property",
    "assumes": ["prost 0.13 encodes as mirrored (validated byte for byte on every run)"],
    "trusted_base": [],
    "level_text": "Theorems (Coq): codec round trip for every well-formed dictionary; conformance of the writer model (descriptors "
                  "unique by full hash, stored back to back from 0 in order of first occurrence, stored size <= source size, valid "
                  "rebuild indexes that rebuild the source, settings recorded verbatim, header layout) when present in "
                  "Properties/C11.v; both writers compared byte for byte with the model.",
    "level_note": _ARCH_NOTE,
}
PROPS["C17"] = {
    "theorems": ["C17_unknown_field_skipped", "C17_decode_with_leading_unknown", "C17_decode_with_trailing_unknown",
                 "C17_conforming_archive_cloned", "C17_free_encoding_decodes", "C17_writer_layout_is_one_of_them", "C17_wire_encoding_decodes", "C17_free_is_wire"],
    "suites": ["protodec", "conform", "tryinit"],
    "rule": "cases: archives written by the harness' independent encoder with every freedom of the format (either magic, offset "
            "slack, stored chunks permuted with gaps, raw/compressed per chunk, unknown fields of all wire types incl. groups, any "
            "field order, packed/unpacked rebuild order, split sub-messages, overridden scalars, non-canonical varints, hash "
            "length 4..64, zero chunks) opened, reported and cloned by the real reader locally and over http; decoder compared "
            "with the model on all of them",
    "assumes": ["the harness' independent encoder follows the documented format"],
    "trusted_base": [],
    "level_text": "Theorems (Coq): C17_free_encoding_decodes -- every encoding in the declarative protobuf grammar free_dict (any "
                  "field order at both levels, explicit defaults, repeated scalars, split sub-messages, packed/unpacked/mixed "
                  "rebuild order, metadata in any order, unknown fields anywhere) decodes to the dictionary; "
                  "C17_wire_encoding_decodes adds non-minimal varints; C17_conforming_archive_cloned -- any accepted archive "
                  "whose index describes a source (chunks stored anywhere, any order, gaps, raw or compressed) is cloned to "
                  "it. The decoder and reader models are compared with prost / Archive::try_init on an independent encoder's output.",
    "level_note": _ARCH_NOTE,
}

PROPS["C01"] = {
    "theorems": ["C01_roundtrip", "C01_archive_records_source", "C01_input_delivery_irrelevant", "C01_roundtrip_over_http", "C01_regular_output_always_resized"],
    "suites": ["clirt", "compress", "conform", "clihuge", "clirefuse"], "needs_cli": True,
    "rule": "cases: generated sources (empty, 1 byte, shorter than window/min chunk, around min/max, duplicate heavy, > 1 MiB) x "
            "valid configurations (three chunkers, hash length 4..64, none/brotli/zstd/lzma at their levels, buffered-chunks 1..64) through "
            "`bita compress` then `bita clone` locally and over http and `bita info`; library writer + reader; every archive also "
            "compared byte for byte with the model's archive. non-trivial = archive > 300 bytes",
    "assumes": ["hash: any 64-byte function not colliding (after truncation) on the chunks of the source; codec round trip "
                "(decompress (compress x) = x); fewer than 2^32 chunks",
                "thread schedules: see C12 (ordered stages, flushed temp file) -- the runtime is assumed as modelled",
                "the verification builds enable the zstd-compression and lzma-compression features: none, brotli, zstd and lzma are "
                "exercised (the default build answers InvalidArchive for zstd/lzma archives)"],
    "trusted_base": [],
    "level_text": "Theorem C01_roundtrip (Coq): for every source and valid options the archive produced by the writer model is accepted by "
                  "the reader model and cloning it yields exactly the source; the header records the true size, checksum and settings. "
                  "Composition of the proved codec round trip, writer conformance, reader acceptance and clone theorems. Both "
                  "writers are tied byte for byte to the model and real compress->clone round trips run on every check. "
                  "Partial: thread and async-file schedules are covered by the C12 model theorems under assumed runtime semantics.",
    "level_note": _ARCH_NOTE,
}

HOOK_COMMITS = ["8bc8c25"]

_PENDING = "check not built yet in this round (see DESIGN.md section 8); no technique switch is implied"
NOT_APPLICABLE = [{"property_id": f"C{i:02d}", "reason": _PENDING} for i in range(1, 18)]


# which sections of tools/translate.py each property's model/theorems depend on
ALL_SECTIONS = ["rolling", "chunker", "header", "proto", "levels", "versions", "cloneflags", "clonesteps", "compresssteps", "pincheck", "pipeline"]
_CHUNK = ["rolling", "chunker"]
_ARCH = ["header", "proto", "levels"]
SECTIONS_OF = {
    "C01": _CHUNK + _ARCH + ["versions", "pipeline", "compresssteps", "clonesteps"],
    "C02": ["clonesteps"], "C03": ["clonesteps"], "C13": [],
    "C05": ["clonesteps"], "C06": ["clonesteps"],
    "C04": _ARCH + ["pincheck"], "C07": [], "C08": [],
    "C09": _CHUNK, "C10": _CHUNK,
    "C11": _CHUNK + _ARCH + ["versions", "compresssteps", "cloneflags"],
    "C12": _CHUNK + _ARCH + ["versions", "pipeline", "compresssteps", "cloneflags"],
    "C14": ["cloneflags", "clonesteps", "compresssteps", "pincheck"],
    "C16": ["cloneflags", "clonesteps", "compresssteps"],
    "C15": _CHUNK + _ARCH, "C17": _ARCH,
}
