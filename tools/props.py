"""Per-property configuration of ./check: theorems (pinned in coq/theories/Properties/<id>.v),
correspondence suites (harness), extra model case files produced by a suite, trusted base and assumptions."""

ALLOWED_AXIOMS = set()   # goal: every property theorem is closed under the global context

PROPS = {
    "C09": {
        "theorems": [],
        "suites": ["hash", "stream", "exh", "oneshot"],
        "extra_case_files": {"stream": ["stream-spec"]},
        "rule": "cases: per-byte hash sums (hash), small streams under scripted read schedules run through the "
                "buffer-level model with the recorded schedule and through the stateless specification (stream, "
                "stream-spec), all strings <= 7 (quick) / 9 (thorough) over a 3-letter alphabet x 8 tiny configs (exh), "
                "larger streams incl. > 1 MiB against the automaton (oneshot). non-trivial = stream longer than the "
                "window (hash) or producing >= 2 chunks; distinct = distinct case line hash",
        "assumes": ["tokio read_buf/BytesMut append exactly what the reader returns (validated by the suites)",
                    "usize is 64 bit"],
        "trusted_base": [],
        "level_text": "Theorems (Coq) about the executable model of the chunker: schedule independence of the streaming "
                      "chunker, equality with the stateless specification (first tested position whose trailing-window hash "
                      "matches, else max), tiling and size bounds; the model is tied to the code on every run by comparing "
                      "per-byte hash sums and chunk lists of the real chunker with the extracted model.",
        "level_note": "Trusted: Coq kernel, translator (table/constants), extraction + OCaml runner, Rust harness. Modelled, not "
                      "verified: rolling_hash/*.rs, chunker/*.rs (hand-written Gallina, sampled correspondence). Assumed: "
                      "tokio read_buf appends what the reader returns; 64-bit usize. Known finding F6 (BuzHash never tests "
                      "stream positions <= window) is excluded from the proved statement and reported as KNOWN-FINDING.",
    },
}

HOOK_COMMITS = ["8bc8c25"]

_PENDING = "check not built yet in this round (see DESIGN.md section 8); no technique switch is implied"
NOT_APPLICABLE = [{"property_id": f"C{i:02d}", "reason": _PENDING} for i in range(1, 18) if f"C{i:02d}" not in PROPS]

