/* LD_PRELOAD shim for the clifault suite: the N-th write(2) (counted over the whole process) to the file whose path
   ends with $FAULTSHIM_PATH fails once with EIO (FAULTSHIM_TORN=k: k bytes are written first, then it fails).
   All other calls are passed through. */
#define _GNU_SOURCE
#include <dlfcn.h>
#include <errno.h>
#include <stdio.h>
#include <stdlib.h>
#include <string.h>
#include <unistd.h>
#include <stdatomic.h>

static ssize_t (*real_write)(int, const void *, size_t);
static atomic_long counter;

static int is_target(int fd) {
    const char *want = getenv("FAULTSHIM_PATH");
    if (!want) return 0;
    char link[64], path[4096];
    snprintf(link, sizeof link, "/proc/self/fd/%d", fd);
    ssize_t n = readlink(link, path, sizeof path - 1);
    if (n <= 0) return 0;
    path[n] = 0;
    size_t lw = strlen(want), lp = (size_t)n;
    return lp >= lw && strcmp(path + lp - lw, want) == 0;
}

ssize_t write(int fd, const void *buf, size_t count) {
    if (!real_write) real_write = (ssize_t (*)(int, const void *, size_t))dlsym(RTLD_NEXT, "write");
    if (fd > 2 && is_target(fd)) {
        long k = atomic_fetch_add(&counter, 1) + 1;
        const char *n = getenv("FAULTSHIM_N");
        if (n && k == atol(n)) {
            const char *t = getenv("FAULTSHIM_TORN");
            if (t && atol(t) > 0 && (size_t)atol(t) < count) return real_write(fd, buf, (size_t)atol(t));
            errno = EIO;
            return -1;
        }
    }
    return real_write(fd, buf, count);
}
