//! Suites `http` (HttpReader::read_chunks / read_at against a scripted raw TCP server) and `ioread`
//! (IoReader::read_chunks over a scripted file): C07, C08, C15 (server part).
use crate::util::*;
use bitar::archive_reader::{ArchiveReader, HttpReader, HttpReaderError, IoReader};
use bitar::ChunkOffset;
use futures_util::StreamExt;
use std::io::{Read, Write};
use std::net::{TcpListener, TcpStream};
use std::pin::Pin;
use std::sync::atomic::{AtomicBool, Ordering};
use std::sync::{Arc, Mutex};
use std::task::{Context, Poll};
use std::time::Duration;
use tokio::io::{AsyncRead, AsyncSeek, ReadBuf};

#[derive(Clone, Debug, PartialEq)]
pub enum SItem {
    Ok,
    Refuse,
    Cut(usize),
    Short(usize),
    Extra(usize),
    Wrong,
}

pub fn script_str(s: &[SItem]) -> String {
    if s.is_empty() {
        return "-".into();
    }
    s.iter()
        .map(|i| match i {
            SItem::Ok => "ok".to_string(),
            SItem::Refuse => "refuse".to_string(),
            SItem::Cut(k) => format!("cut{}", k),
            SItem::Short(k) => format!("short{}", k),
            SItem::Extra(k) => format!("extra{}", k),
            SItem::Wrong => "wrong".to_string(),
        })
        .collect::<Vec<_>>()
        .join(",")
}

pub fn parse_script(s: &str) -> Vec<SItem> {
    if s == "-" {
        return vec![];
    }
    s.split(',')
        .map(|t| {
            if t == "ok" { SItem::Ok } else if t == "refuse" { SItem::Refuse } else if t == "wrong" { SItem::Wrong }
            else if let Some(k) = t.strip_prefix("cut") { SItem::Cut(k.parse().unwrap()) }
            else if let Some(k) = t.strip_prefix("short") { SItem::Short(k.parse().unwrap()) }
            else if let Some(k) = t.strip_prefix("extra") { SItem::Extra(k.parse().unwrap()) }
            else { panic!("script item") }
        })
        .collect()
}

pub struct ScriptServer {
    pub port: u16,
    pub log: Arc<Mutex<Vec<(u64, u64)>>>,
    stop: Arc<AtomicBool>,
    handle: Option<std::thread::JoinHandle<()>>,
}

/// virtual mode: the served "file" is the given bytes repeated for ever (byte at offset o = file[o % len]), so that ranges
/// far beyond 2^32 can be asked for; a request for more than 64 KiB is answered with its first 64 KiB only
pub static VIRTUAL_FILE: AtomicBool = AtomicBool::new(false);

fn handle_conn(mut s: TcpStream, file: &[u8], script: &Mutex<Vec<SItem>>, log: &Mutex<Vec<(u64, u64)>>, frag: &[u64]) {
    let _ = s.set_read_timeout(Some(Duration::from_secs(5)));
    let mut req = vec![];
    let mut b = [0u8; 1024];
    loop {
        match s.read(&mut b) {
            Ok(0) => return,
            Ok(n) => {
                req.extend_from_slice(&b[..n]);
                if req.windows(4).any(|w| w == b"\r\n\r\n") { break; }
            }
            Err(_) => return,
        }
    }
    let text = String::from_utf8_lossy(&req).to_lowercase();
    let (a, e) = match text.find("range: bytes=") {
        Some(p) => {
            let r = &text[p + 13..];
            let line = r.split("\r\n").next().unwrap_or("");
            let mut it = line.split('-');
            let a: u64 = it.next().unwrap_or("0").trim().parse().unwrap_or(0);
            let e: u64 = it.next().unwrap_or("0").trim().parse().unwrap_or(0);
            (a, e)
        }
        None => (0, file.len() as u64 - 1),
    };
    let size = e.wrapping_sub(a).wrapping_add(1);
    log.lock().unwrap().push((a, size));
    let item = { let mut sc = script.lock().unwrap(); if sc.is_empty() { SItem::Ok } else { sc.remove(0) } };
    let virt: Vec<u8>;
    let a_us = (a as usize).min(file.len());
    let want_end = (a_us + size as usize).min(file.len());
    let want: &[u8] = if VIRTUAL_FILE.load(Ordering::Relaxed) && !file.is_empty() {
        virt = (0..size.min(1 << 16)).map(|i| file[((a + i) % file.len() as u64) as usize]).collect();
        &virt
    } else { &file[a_us..want_end] };
    let send = |s: &mut TcpStream, clen: usize, body: &[u8]| {
        let head = format!("HTTP/1.1 206 Partial Content\r\nContent-Length: {}\r\nConnection: close\r\n\r\n", clen);
        let _ = s.write_all(head.as_bytes());
        // the body is sent in separately flushed pieces, cut at the absolute file offsets in `frag`
        let mut start = 0usize;
        for cut in frag {
            let rel = cut.saturating_sub(a) as usize;
            if rel > start && rel < body.len() {
                let _ = s.write_all(&body[start..rel]);
                let _ = s.flush();
                std::thread::sleep(Duration::from_millis(4));
                start = rel;
            }
        }
        let _ = s.write_all(&body[start..]);
        let _ = s.flush();
    };
    match item {
        SItem::Ok => send(&mut s, want.len(), want),
        SItem::Refuse => { /* close without a response */ }
        SItem::Cut(k) => {
            let k = k.min(want.len());
            // declare the full length, send a prefix, then end the connection
            send(&mut s, want.len().max(k + 1), &want[..k]);
        }
        SItem::Short(k) => { let k = k.min(want.len()); send(&mut s, k, &want[..k]); }
        SItem::Extra(k) => { let end = (a_us + size as usize + k).min(file.len()); send(&mut s, end - a_us, &file[a_us..end]); }
        SItem::Wrong => { let w: Vec<u8> = want.iter().map(|b| b ^ 255).collect(); send(&mut s, w.len(), &w); }
    }
    let _ = s.shutdown(std::net::Shutdown::Write);
    // drain until the peer closes so that everything sent is delivered before the FIN is seen as an error
    let _ = s.set_read_timeout(Some(Duration::from_millis(200)));
    let mut sink = [0u8; 256];
    while let Ok(n) = s.read(&mut sink) { if n == 0 { break; } }
}

impl ScriptServer {
    pub fn start(file: Vec<u8>, script: Vec<SItem>) -> Self {
        Self::start_frag(file, script, vec![])
    }
    pub fn start_frag(file: Vec<u8>, script: Vec<SItem>, frag: Vec<u64>) -> Self {
        let listener = TcpListener::bind("127.0.0.1:0").unwrap();
        let port = listener.local_addr().unwrap().port();
        listener.set_nonblocking(true).unwrap();
        let log = Arc::new(Mutex::new(vec![]));
        let stop = Arc::new(AtomicBool::new(false));
        let (l2, s2) = (log.clone(), stop.clone());
        let handle = std::thread::spawn(move || {
            let script = Mutex::new(script);
            while !s2.load(Ordering::SeqCst) {
                match listener.accept() {
                    Ok((s, _)) => { let _ = s.set_nonblocking(false); let _ = s.set_nodelay(true); handle_conn(s, &file, &script, &l2, &frag); }
                    Err(_) => std::thread::sleep(Duration::from_micros(300)),
                }
            }
        });
        Self { port, log, stop, handle: Some(handle) }
    }
    pub fn url(&self) -> String { format!("http://127.0.0.1:{}/archive.cba", self.port) }
    pub fn finish(mut self) -> Vec<(u64, u64)> {
        self.stop.store(true, Ordering::SeqCst);
        if let Some(h) = self.handle.take() { let _ = h.join(); }
        let l = self.log.lock().unwrap().clone();
        l
    }
}

pub fn items_str(items: &[Result<Vec<u8>, String>]) -> String {
    if items.is_empty() { return "-".into(); }
    items.iter().map(|i| match i { Ok(d) => format!("ok:{}", hex(d)), Err(e) => format!("err:{}", e) }).collect::<Vec<_>>().join(",")
}

pub fn log_str(l: &[(u64, u64)]) -> String {
    if l.is_empty() { return "-".into(); }
    l.iter().map(|(a, s)| format!("{}+{}", a, s)).collect::<Vec<_>>().join(",")
}

fn err_class(e: &HttpReaderError) -> String {
    match e { HttpReaderError::UnexpectedEnd => "END".into(), HttpReaderError::Http(_) => "HTTP".into(), HttpReaderError::RequestNotClonable => "CLONE".into() }
}

pub fn run_http_chunks(file: &[u8], ranges: &[(u64, usize)], retries: u32, script: Vec<SItem>) -> (Vec<Result<Vec<u8>, String>>, Vec<(u64, u64)>) {
    run_http_chunks_frag(file, ranges, retries, script, vec![])
}

pub fn run_http_chunks_frag(file: &[u8], ranges: &[(u64, usize)], retries: u32, script: Vec<SItem>, frag: Vec<u64>) -> (Vec<Result<Vec<u8>, String>>, Vec<(u64, u64)>) {
    let srv = ScriptServer::start_frag(file.to_vec(), script, frag);
    let url = srv.url();
    let ranges: Vec<ChunkOffset> = ranges.iter().map(|(o, s)| ChunkOffset::new(*o, *s)).collect();
    let r = std::panic::catch_unwind(move || {
        let rt = tokio::runtime::Builder::new_current_thread().enable_all().build().unwrap();
        rt.block_on(async move {
            let mut reader = HttpReader::from_url(url.parse().unwrap()).retries(retries).retry_delay(Duration::from_millis(0));
            let mut st = reader.read_chunks(ranges);
            let mut items = vec![];
            // watchdog: a reader that neither delivers nor fails (lost wake-up, endless re-requests) is a C15 matter
            let deadline = tokio::time::Instant::now() + watchdog(6);
            loop {
                match tokio::time::timeout_at(deadline, st.next()).await {
                    Err(_) => { watchdog_hit(); items.push(Err("TIMEOUT".to_string())); break; }
                    Ok(None) => break,
                    // like Archive::chunk_stream (StreamUntilFirstError): the stream is not polled after an error
                    Ok(Some(Ok(b))) => items.push(Ok(b.to_vec())),
                    Ok(Some(Err(e))) => { items.push(Err(err_class(&e))); break; }
                }
                if items.len() > 10000 { break; }
            }
            items
        })
    });
    let log = srv.finish();
    (r.unwrap_or_else(|_| vec![Err("PANIC".to_string())]), log)
}

pub fn run_http_read_at(file: &[u8], off: u64, size: usize, retries: u32, script: Vec<SItem>) -> (Result<Vec<u8>, String>, Vec<(u64, u64)>) {
    let srv = ScriptServer::start(file.to_vec(), script);
    let url = srv.url();
    let r = std::panic::catch_unwind(move || {
        let rt = tokio::runtime::Builder::new_current_thread().enable_all().build().unwrap();
        rt.block_on(async move {
            let mut reader = HttpReader::from_url(url.parse().unwrap()).retries(retries).retry_delay(Duration::from_millis(0));
            match tokio::time::timeout(watchdog(6), reader.read_at(off, size)).await { Err(_) => { watchdog_hit(); Err("TIMEOUT".to_string()) } Ok(Ok(b)) => Ok(b.to_vec()), Ok(Err(e)) => Err(err_class(&e)) }
        })
    });
    let log = srv.finish();
    (r.unwrap_or_else(|_| Err("PANIC".to_string())), log)
}

/// maximal runs of adjacent ranges (C07 reference, written independently)
fn runs(ranges: &[(u64, usize)]) -> Vec<(u64, u64)> {
    let mut out: Vec<(u64, u64)> = vec![];
    let mut i = 0;
    while i < ranges.len() {
        let start = ranges[i].0;
        let mut end = ranges[i].0 + ranges[i].1 as u64;
        let mut j = i + 1;
        while j < ranges.len() && ranges[j].0 == end { end += ranges[j].1 as u64; j += 1; }
        // (a run of empty ranges only needs no request: an empty range is complete before anything is asked for)
        if end > start { out.push((start, end - start)); }
        i = j;
    }
    out
}

fn gen_ranges(rng: &mut Rng, flen: usize) -> Vec<(u64, usize)> {
    // chunks of a tiled "archive", a subset of them, in archive order mostly; sometimes unordered / gapped
    let mut all = vec![];
    let mut pos = rng.below(20) as usize;
    while pos < flen {
        let s = rng.range(1, 40) as usize;
        if pos + s > flen { break; }
        all.push((pos as u64, s));
        pos += s;
        if rng.chance(1, 8) { pos += rng.range(1, 10) as usize; }
    }
    let mut sel: Vec<(u64, usize)> = all.into_iter().filter(|_| rng.chance(2, 3)).collect();
    if rng.chance(1, 6) {
        for i in (1..sel.len()).rev() { let j = rng.below(i as u64 + 1) as usize; sel.swap(i, j); }
    }
    sel.truncate(12);
    // ranges of one size listed in DESCENDING order, back to back (each one ends where the one before it begins): not a
    // run -- adjacency is "the next one starts where this one ends"
    if flen >= 24 && rng.chance(1, 8) {
        let sz = rng.range(2, (flen as u64 / 4).min(30)) as usize;
        let n = rng.range(2, 4) as usize;
        let top = rng.range((n * sz) as u64, flen as u64) as usize;
        let mut desc: Vec<(u64, usize)> = (1..=n).map(|k| ((top - k * sz) as u64, sz)).collect();
        if rng.chance(1, 2) { sel.append(&mut desc); } else { desc.append(&mut sel); sel = desc; }
        sel.truncate(12);
    }
    // an empty range somewhere in the list (offset of a neighbour, or anywhere): its bytes are no bytes
    if !sel.is_empty() && rng.chance(1, 6) {
        let k = rng.below(sel.len() as u64 + 1) as usize;
        let off = if k < sel.len() && rng.chance(1, 2) { sel[k].0 } else if k > 0 { sel[k - 1].0 + sel[k - 1].1 as u64 } else { rng.below(flen as u64) };
        sel.insert(k, (off, 0));
    }
    sel
}

pub fn suite_http(dir: &str, seed: u64, thorough: bool, st: &mut Stats) {
    let mut rng = Rng::new(seed ^ 0x81);
    let mut out = SuiteOut::new(dir, "http");
    let n = if thorough { 10000 } else { 350 };
    for i in 0..n {
        let flen = rng.range(if i < 64 { 60 } else { 50 }, 400) as usize;
        let file: Vec<u8> = (0..flen).map(|_| rng.next() as u8).collect();
        let ranges = if i < 64 {
            // every subset of a 6-chunk archive (exhaustive small scope for C07)
            let chunks = [(10u64, 7usize), (17, 5), (22, 9), (40, 3), (43, 8), (51, 4)];
            (0..6).filter(|b| (i >> b) & 1 == 1).map(|b| chunks[b]).collect::<Vec<_>>()
        } else { gen_ranges(&mut rng, flen) };
        let faults = i >= 64 && i % 2 == 1;
        let retries = if faults { rng.below(4) as u32 } else { 0 };
        let script: Vec<SItem> = if !faults { vec![] } else {
            (0..rng.range(1, 6)).map(|_| match rng.below(9) {
                0 => SItem::Refuse,
                1 | 2 => SItem::Cut(rng.below(60) as usize),
                3 => SItem::Cut(0),
                4 => SItem::Short(rng.below(30) as usize),
                5 => SItem::Extra(rng.range(1, 30) as usize),
                6 => SItem::Wrong,
                _ => SItem::Ok,
            }).collect()
        };
        // body fragmentation (must not matter): cuts at chunk boundaries (the critical places) and random offsets
        // (with a server that sends MORE than requested the left-over bytes, hence the result, legitimately depend on how
        //  the body is cut: such scripts are run with bodies sent in one piece, as the model assumes)
        let has_extra = script.iter().any(|x| matches!(x, SItem::Extra(_)));
        let frag: Vec<u64> = if i % 3 == 0 || has_extra { vec![] } else {
            let mut f: Vec<u64> = ranges.iter().filter(|_| rng.chance(1, 2)).map(|(o, _)| *o).collect();
            for _ in 0..rng.below(3) { f.push(rng.below(flen as u64)); }
            f.sort();
            f.dedup();
            f
        };
        st.count(&format!("http/fragments/{}", frag.len().min(3)));
        let (items, log) = run_http_chunks_frag(&file, &ranges, retries, script.clone(), frag);
        let line = format!("http {} {} {} {}", hex(&file), if ranges.is_empty() { "-".into() } else { ranges.iter().map(|(o, s)| format!("{}+{}", o, s)).collect::<Vec<_>>().join(",") }, retries, script_str(&script));
        st.evaluations += 1;
        st.count(&format!("http/{}", if faults { "faults" } else { "clean" }));
        if log.len() >= 2 { st.nontrivial_key(line.as_bytes()); }
        st.sample(format!("http file={}B ranges={:?} retries={} script={}", flen, &ranges[..ranges.len().min(4)], retries, script_str(&script)));
        st.oracle_checks += 1;
        if items.iter().any(|x| x == &Err("PANIC".to_string())) {
            st.violation("C15", "http reader panicked on a server response", &line);
        }
        if items.iter().any(|x| x == &Err("TIMEOUT".to_string())) {
            st.violation("C15", "http reader neither delivered nor reported an error within 6 s", &line);
            st.violation("C08", "http reader neither delivered nor reported an error within 6 s", &line);
        }
        if !faults {
            // C07: requests are the maximal runs; C08: items are exactly the requested bytes
            if log != runs(&ranges) {
                st.violation("C07", &format!("requests {:?} are not the maximal runs {:?}", log, runs(&ranges)), &line);
                // C06: every byte of chunk data is requested once -- here (no failing transfer) more bytes were asked for
                let asked: u64 = log.iter().map(|r| r.1).sum();
                let wanted: u64 = ranges.iter().map(|r| r.1 as u64).sum();
                let distinct = { let mut u = ranges.clone(); u.sort(); u.dedup(); u.len() == ranges.len() };
                if distinct && asked > wanted {
                    st.violation("C06", &format!("{} bytes of chunk data requested for {} bytes wanted (no failing transfer): {:?}", asked, wanted, log), &line);
                }
            }
            let want: Vec<Result<Vec<u8>, String>> = ranges.iter().map(|(o, s)| Ok(file[*o as usize..*o as usize + s].to_vec())).collect();
            if items != want { st.violation("C08", "http reader did not deliver exactly the requested bytes", &line); }
        } else {
            // C08 with a server that sends correct bytes when it answers (no Extra/Wrong in the script)
            let honest = script.iter().all(|s| !matches!(s, SItem::Extra(_) | SItem::Wrong));
            if honest {
                for (k, it) in items.iter().enumerate() {
                    if let Ok(d) = it {
                        let (o, s) = ranges[k];
                        if d[..] != file[o as usize..o as usize + s] { st.violation("C08", &format!("chunk {} delivered short, shifted or duplicated", k), &line); }
                    }
                }
                // a transfer that could not be completed ends with an error item, never silently
                if items.len() < ranges.len() && !matches!(items.last(), Some(Err(_))) {
                    st.violation("C08", "the chunk stream ended early without an error", &line);
                }
                // no more failing transfers (refused or cut connections) than the retry budget: everything is delivered
                // (C08_retries_suffice)
                let failing = script.iter().filter(|s| matches!(s, SItem::Refuse | SItem::Cut(_))).count();
                if script.iter().all(|s| matches!(s, SItem::Ok | SItem::Refuse | SItem::Cut(_))) && failing <= retries as usize {
                    let want: Vec<Result<Vec<u8>, String>> = ranges.iter().map(|(o, s)| Ok(file[*o as usize..*o as usize + s].to_vec())).collect();
                    if items != want { st.violation("C08", &format!("{} failing transfer(s) with a retry budget of {}: the reader gave up or delivered other bytes", failing, retries), &line); }
                }
                // resumed requests start at the first byte not yet received
                for w in log.windows(2) {
                    let (a0, s0) = w[0];
                    let (a1, s1) = w[1];
                    let same_run = a1 >= a0 && a1 + s1 == a0 + s0;
                    let new_run = runs(&ranges).iter().any(|r| r.0 == a1 && r.1 == s1);
                    if !same_run && !new_run { st.violation("C08", &format!("re-request {}+{} after {}+{} loses or repeats progress", a1, s1, a0, s0), &line); }
                }
            }
        }
        out.push(&line, &format!("{} | {}", items_str(&items), log_str(&log)));
    }
    // ranges far beyond 2^32 (chunk data of a large archive) against the virtual file: a list whose second part is moved
    // up by a multiple of 2^32 -- what was adjacent across the cut no longer is, everything else keeps its runs; the
    // bytes are those of the shifted offsets
    VIRTUAL_FILE.store(true, Ordering::Relaxed);
    for _ in 0..(n / 12) {
        let flen = rng.range(60, 300) as usize;
        let file: Vec<u8> = (0..flen).map(|_| rng.next() as u8).collect();
        let base: Vec<(u64, usize)> = gen_ranges(&mut rng, flen).into_iter().filter(|r| r.1 > 0).collect();
        if base.len() < 2 { continue; }
        let cut = rng.range(1, base.len() as u64 - 1).min(base.len() as u64 - 1) as usize;
        let k = rng.range(1, 3) << 32;
        let lift = if rng.chance(1, 3) { 7u64 << 32 } else { 0 };
        let ranges: Vec<(u64, usize)> = base.iter().enumerate().map(|(i, (o, sz))| (o + lift + if i >= cut { k } else { 0 }, *sz)).collect();
        let (items, log) = run_http_chunks_frag(&file, &ranges, 0, vec![], vec![]);
        let line = format!("http-virtual {} {}", hex(&file), ranges.iter().map(|(o, s)| format!("{}+{}", o, s)).collect::<Vec<_>>().join(","));
        st.evaluations += 1;
        st.oracle_checks += 1;
        st.count("http/beyond-2^32");
        let want: Vec<Result<Vec<u8>, String>> = ranges.iter().map(|(o, sz)| Ok((0..*sz as u64).map(|i| file[((o + i) % flen as u64) as usize]).collect())).collect();
        if log != runs(&ranges) { st.violation("C07", &format!("beyond 2^32: requests {:?} are not the maximal runs {:?}", log, runs(&ranges)), &line); }
        if items != want { st.violation("C08", "beyond 2^32: http reader did not deliver exactly the requested bytes", &line); }
    }
    VIRTUAL_FILE.store(false, Ordering::Relaxed);
    // read_at
    for _ in 0..(n / 6) {
        let flen = rng.range(30, 200) as usize;
        let file: Vec<u8> = (0..flen).map(|_| rng.next() as u8).collect();
        let off = rng.below(flen as u64 / 2);
        let size = rng.range(1, (flen as u64 - off).min(80)) as usize;
        let retries = rng.below(3) as u32;
        let script: Vec<SItem> = (0..rng.below(4)).map(|_| match rng.below(6) { 0 => SItem::Refuse, 1 => SItem::Cut(rng.below(40) as usize), 2 => SItem::Short(rng.below(40) as usize), 3 => SItem::Extra(rng.range(1, 20) as usize), _ => SItem::Ok }).collect();
        let (r, log) = run_http_read_at(&file, off, size, retries, script.clone());
        let line = format!("httpat {} {} {} {} {}", hex(&file), off, size, retries, script_str(&script));
        st.evaluations += 1;
        st.count("http/read_at");
        out.push(&line, &format!("{} | {}", items_str(&[r]), log_str(&log)));
    }
    // one reader used for several streams: a stream dropped in the middle of a run (bytes received but not handed
    // out), possibly a read_at, then another stream -- the later stream behaves as on a fresh reader
    for _ in 0..(n / 5) {
        let flen = rng.range(120, 400) as usize;
        let file: Vec<u8> = (0..flen).map(|_| rng.next() as u8).collect();
        // first stream: a run of 2..4 adjacent chunks of which only `take` are consumed
        let a0 = rng.below(30);
        let mut first: Vec<(u64, usize)> = vec![];
        let mut pos = a0;
        for _ in 0..rng.range(2, 4) { let sz = rng.range(1, 12) as usize; first.push((pos, sz)); pos += sz as u64; }
        let take = rng.range(1, first.len() as u64 - 1) as usize;
        let ranges = gen_ranges(&mut rng, flen);
        let do_read_at = rng.chance(1, 3);
        let srv = ScriptServer::start(file.clone(), vec![]);
        let url = srv.url();
        let logc = srv.log.clone();
        let (f1, r2) = (first.clone(), ranges.clone());
        let r = std::panic::catch_unwind(move || {
            let rt = tokio::runtime::Builder::new_current_thread().enable_all().build().unwrap();
            rt.block_on(async move {
                let mut reader = HttpReader::from_url(url.parse().unwrap()).retries(0).retry_delay(Duration::from_millis(0));
                {
                    let mut st1 = reader.read_chunks(f1.iter().map(|(o, s)| ChunkOffset::new(*o, *s)).collect());
                    for _ in 0..take { let _ = st1.next().await; }
                }
                if do_read_at { let _ = reader.read_at(3, 5).await; }
                let before = logc.lock().unwrap().len();
                let mut st2 = reader.read_chunks(r2.iter().map(|(o, s)| ChunkOffset::new(*o, *s)).collect());
                let mut items = vec![];
                while let Some(it) = st2.next().await {
                    match it { Ok(b) => items.push(Ok(b.to_vec())), Err(e) => { items.push(Err(err_class(&e))); break; } }
                    if items.len() > 10000 { break; }
                }
                (items, before)
            })
        });
        let log = srv.finish();
        let (items, before) = r.unwrap_or_else(|_| (vec![Err("PANIC".to_string())], 0));
        let log2: Vec<(u64, u64)> = log[before.min(log.len())..].to_vec();
        let line = format!("http {} {} 0 -", hex(&file), if ranges.is_empty() { "-".into() } else { ranges.iter().map(|(o, s)| format!("{}+{}", o, s)).collect::<Vec<_>>().join(",") });
        st.evaluations += 1;
        st.oracle_checks += 1;
        st.count("http/reader-reused");
        if log2 != runs(&ranges) {
            st.violation("C07", &format!("second stream on a reader: requests {:?} are not the maximal runs {:?}", log2, runs(&ranges)), &line);
        }
        let want: Vec<Result<Vec<u8>, String>> = ranges.iter().map(|(o, s)| Ok(file[*o as usize..*o as usize + s].to_vec())).collect();
        if items != want { st.violation("C08", "second stream on a reader did not deliver exactly the requested bytes", &line); }
        out.push(&line, &format!("{} | {}", items_str(&items), log_str(&log2)));
    }
    out.finish();
}

// ---------------------------------------------------------------------------------------------
/// An in-memory file with scripted read sizes / Pending and the two-phase seek of `AsyncSeek`: a seek takes effect
/// only when `poll_complete` returns Ready (which it does after `seek_pending` Pending results); a read issued
/// before that still sees the old position, and a second `start_seek` in between is refused -- as
/// `tokio::io::BufReader` and `tokio::fs::File` do.
pub struct ScriptFile { pub base: u64, pub data: Vec<u8>, pub pos: u64, pub sched: Vec<Ev>, pub idx: usize, pub seek_pending: Vec<u8>, pub sidx: usize, pub target: Option<(u64, u8)>, pub fail_read: Option<usize>, pub reads: usize }

impl ScriptFile {
    pub fn new(data: Vec<u8>, sched: Vec<Ev>, seek_pending: Vec<u8>) -> Self { ScriptFile { base: 0, data, pos: 0, sched, idx: 0, seek_pending, sidx: 0, target: None, fail_read: None, reads: 0 } }
}

impl AsyncRead for ScriptFile {
    fn poll_read(mut self: Pin<&mut Self>, cx: &mut Context<'_>, buf: &mut ReadBuf<'_>) -> Poll<std::io::Result<()>> {
        let me = &mut *self;
        me.reads += 1;
        if me.fail_read == Some(me.reads) { return Poll::Ready(Err(std::io::Error::new(std::io::ErrorKind::Other, "injected read error"))); }
        // (with a base the vector is the file's content from that offset on; nothing is served from below it)
        let pos = (me.pos.saturating_sub(me.base) as usize).min(me.data.len());
        let left = if me.pos < me.base { 0 } else { me.data.len() - pos };
        let want = if me.idx < me.sched.len() {
            let e = me.sched[me.idx];
            me.idx += 1;
            match e { Ev::Pending => { cx.waker().wake_by_ref(); return Poll::Pending; } Ev::Read(n) => n.max(1) }
        } else { left };
        let k = want.min(left).min(buf.remaining());
        buf.put_slice(&me.data[pos..pos + k]);
        me.pos += k as u64;
        Poll::Ready(Ok(()))
    }
}
impl AsyncSeek for ScriptFile {
    fn start_seek(mut self: Pin<&mut Self>, p: std::io::SeekFrom) -> std::io::Result<()> {
        if self.target.is_some() {
            return Err(std::io::Error::new(std::io::ErrorKind::Other, "other file operation is pending, call poll_complete before start_seek"));
        }
        let n = if self.sidx < self.seek_pending.len() { self.seek_pending[self.sidx] } else { 0 };
        self.sidx += 1;
        if let std::io::SeekFrom::Start(o) = p { self.target = Some((o, n)); }
        Ok(())
    }
    fn poll_complete(mut self: Pin<&mut Self>, cx: &mut Context<'_>) -> Poll<std::io::Result<u64>> {
        match self.target {
            Some((o, n)) if n > 0 => { self.target = Some((o, n - 1)); cx.waker().wake_by_ref(); Poll::Pending }
            Some((o, _)) => { self.pos = o; self.target = None; Poll::Ready(Ok(o)) }
            None => Poll::Ready(Ok(self.pos)),
        }
    }
}

pub fn suite_ioread(dir: &str, seed: u64, thorough: bool, st: &mut Stats) {
    let mut rng = Rng::new(seed ^ 0x82);
    let mut out = SuiteOut::new(dir, "ioread");
    let n = if thorough { 20000 } else { 600 };
    for _ in 0..n {
        let flen = rng.range(0, 300) as usize;
        let file: Vec<u8> = (0..flen).map(|_| rng.next() as u8).collect();
        let mut ranges = gen_ranges(&mut rng, flen.max(1));
        if rng.chance(1, 8) { ranges.push((flen as u64 - flen.min(3) as u64, 10)); } // runs past the end
        let sched = gen_sched(&mut rng, 300);
        let sched: Vec<Ev> = sched.into_iter().take(200).collect();
        let f2 = file.clone();
        let r2: Vec<ChunkOffset> = ranges.iter().map(|(o, s)| ChunkOffset::new(*o, *s)).collect();
        let s2 = sched.clone();
        // how many times the completion of each seek is Pending
        let sp2: Vec<u8> = (0..ranges.len() + 2).map(|_| if rng.chance(1, 2) { 0 } else { rng.range(1, 3) as u8 }).collect();
        let r = std::panic::catch_unwind(move || {
            let rt = tokio::runtime::Builder::new_current_thread().build().unwrap();
            rt.block_on(async move {
                let mut reader = IoReader::new(ScriptFile::new(f2, s2, sp2));
                let mut stt = reader.read_chunks(r2);
                let mut items: Vec<Result<Vec<u8>, String>> = vec![];
                while let Some(it) = stt.next().await {
                    match it { Ok(b) => items.push(Ok(b.to_vec())), Err(e) => { items.push(Err(if e.kind() == std::io::ErrorKind::UnexpectedEof { "EOF".into() } else { "IO".into() })); break; } }
                }
                items
            })
        });
        let items = r.unwrap_or_else(|_| vec![Err("PANIC".to_string())]);
        let line = format!("ioread {} {} {}", hex(&file), if ranges.is_empty() { "-".into() } else { ranges.iter().map(|(o, s)| format!("{}+{}", o, s)).collect::<Vec<_>>().join(",") }, sched_str(&sched));
        st.evaluations += 1;
        st.oracle_checks += 1;
        st.count(&format!("ioread/{}", if items.iter().any(|x| x.is_err()) { "eof" } else { "ok" }));
        if ranges.len() >= 2 { st.nontrivial_key(line.as_bytes()); }
        st.sample(line.clone());
        // C08 oracle: exactly the requested bytes in order, or EOF when the file ends
        for (k, (o, s)) in ranges.iter().enumerate() {
            let end = *o as usize + s;
            match items.get(k) {
                Some(Ok(d)) => if end > file.len() || d[..] != file[*o as usize..end] { st.violation("C08", &format!("local reader item {} is not the requested bytes", k), &line); },
                Some(Err(e)) => { if end <= file.len() || e != "EOF" { st.violation("C08", &format!("local reader failed on item {} although the file has the bytes", k), &line); } break; }
                None => { st.violation("C08", "local reader returned fewer items than requested", &line); break; }
            }
        }
        out.push(&line, &items_str(&items));
        // the same file content placed beyond 2^32 (chunk data of a large archive): the same items for the shifted ranges
        if rng.chance(1, 3) {
            const BIG: u64 = (5 << 32) + 7;
            let (f3, s3) = (file.clone(), sched.clone());
            let r3: Vec<ChunkOffset> = ranges.iter().map(|(o, s)| ChunkOffset::new(*o + BIG, *s)).collect();
            let sp3: Vec<u8> = vec![0, 1, 0, 2];
            let rb = std::panic::catch_unwind(move || {
                let rt = tokio::runtime::Builder::new_current_thread().build().unwrap();
                rt.block_on(async move {
                    let mut sf = ScriptFile::new(f3, s3, sp3);
                    sf.base = BIG;
                    let mut reader = IoReader::new(sf);
                    let mut stt = reader.read_chunks(r3);
                    let mut items: Vec<Result<Vec<u8>, String>> = vec![];
                    while let Some(it) = stt.next().await {
                        match it { Ok(b) => items.push(Ok(b.to_vec())), Err(e) => { items.push(Err(if e.kind() == std::io::ErrorKind::UnexpectedEof { "EOF".into() } else { "IO".into() })); break; } }
                    }
                    items
                })
            });
            let big_items = rb.unwrap_or_else(|_| vec![Err("PANIC".to_string())]);
            st.evaluations += 1;
            st.oracle_checks += 1;
            st.count("ioread/beyond-2^32");
            if big_items != items { st.violation("C08", "local reader delivers other items for the same ranges placed beyond 2^32", &line); }
        }
    }
    // IoReader::read_at (the header reads of a local archive): exactly the requested bytes for small and for large
    // sizes (around and above the 1 MiB the reader allocates at first), with data following in the file; an error
    // when the file ends before
    {
        let big: Vec<u8> = { let mut r2 = Rng::new(seed ^ 0x83); (0..3_600_000).map(|_| r2.next() as u8).collect() };
        let mut cases: Vec<(u64, usize, bool)> = vec![(0, 1 << 20, true), (13, (1 << 20) + 1, true), (7, (1 << 20) - 1, true), (100, 1_572_864, true), (0, 3 << 20, true), (3_000_000, 700_000, true), (3_599_990, 10, true)];
        for _ in 0..(n / 10) { let flen = rng.range(1, 400); let off = rng.below(flen + 20); let size = rng.range(0, 200) as usize; cases.push((off, size, false)); }
        for (k, (off, size, use_big)) in cases.into_iter().enumerate() {
            let file: Vec<u8> = if use_big { big.clone() } else { (0..rng.range(1, 400)).map(|_| rng.next() as u8).collect() };
            let sched: Vec<Ev> = if k % 2 == 0 { vec![] } else { gen_sched(&mut rng, 300).into_iter().take(60).collect() };
            let f2 = file.clone();
            let r = std::panic::catch_unwind(move || {
                let rt = tokio::runtime::Builder::new_current_thread().build().unwrap();
                rt.block_on(async move {
                    let mut reader = IoReader::new(ScriptFile::new(f2, sched, vec![0, 1]));
                    match reader.read_at(off, size).await { Ok(b) => Ok(b.to_vec()), Err(e) => Err(if e.kind() == std::io::ErrorKind::UnexpectedEof { "EOF".to_string() } else { "IO".to_string() }) }
                })
            });
            let r = r.unwrap_or_else(|_| Err("PANIC".to_string()));
            let line = format!("ioat file={}B off={} size={}", file.len(), off, size);
            st.evaluations += 1;
            st.oracle_checks += 1;
            st.count(&format!("ioread/read_at/{}", if use_big { "large" } else { "small" }));
            let end = off as usize + size;
            match &r {
                // (no bytes requested: no bytes, wherever the offset lies)
                Ok(d) if size == 0 => { if !d.is_empty() { st.violation("C08", &format!("local read_at returned {} bytes, none requested", d.len()), &line); } }
                Ok(d) => { if end > file.len() || d[..] != file[off as usize..end] { st.violation("C08", &format!("local read_at returned {} bytes that are not the {} requested ones", d.len(), size), &line); } }
                Err(e) => { if e == "PANIC" { st.violation("C15", "local read_at panicked", &line); } else if end <= file.len() { st.violation("C08", &format!("local read_at failed ({}) although the file has the bytes", e), &line); } }
            }
        }
    }
    // a read of the underlying file fails: the chunks delivered before are right, the stream ends with that error
    for _ in 0..(n / 6) {
        let flen = rng.range(60, 300) as usize;
        let file: Vec<u8> = (0..flen).map(|_| rng.next() as u8).collect();
        let ranges = gen_ranges(&mut rng, flen);
        if ranges.is_empty() { continue; }
        let k = rng.range(1, 12) as usize;
        let (f2, r2) = (file.clone(), ranges.clone());
        let sched: Vec<Ev> = gen_sched(&mut rng, 300).into_iter().take(100).collect();
        let r = std::panic::catch_unwind(move || {
            let rt = tokio::runtime::Builder::new_current_thread().build().unwrap();
            rt.block_on(async move {
                let mut sf = ScriptFile::new(f2, sched, vec![]);
                sf.fail_read = Some(k);
                let mut reader = IoReader::new(sf);
                let mut stt = reader.read_chunks(r2.iter().map(|(o, s)| ChunkOffset::new(*o, *s)).collect());
                let mut items: Vec<Result<Vec<u8>, String>> = vec![];
                while let Some(it) = stt.next().await {
                    match it { Ok(b) => items.push(Ok(b.to_vec())), Err(e) => { items.push(Err(if e.kind() == std::io::ErrorKind::UnexpectedEof { "EOF".into() } else { "IO".into() })); break; } }
                    if items.len() > 1000 { break; }
                }
                items
            })
        });
        let items = r.unwrap_or_else(|_| vec![Err("PANIC".to_string())]);
        let line = format!("ioread-fail {} {} read#{}", hex(&file), ranges.iter().map(|(o, s)| format!("{}+{}", o, s)).collect::<Vec<_>>().join(","), k);
        st.evaluations += 1;
        st.oracle_checks += 1;
        st.count(&format!("ioread/read-error/{}", if matches!(items.last(), Some(Err(_))) { "reported" } else { "not-reached" }));
        for (i, it) in items.iter().enumerate() {
            match it {
                Ok(d) => { let (o, sz) = ranges[i.min(ranges.len() - 1)]; if i >= ranges.len() || d[..] != file[o as usize..o as usize + sz] { st.violation("C08", "local reader with a failing read delivered a wrong chunk", &line); break; } }
                Err(e) => { if e == "PANIC" { st.violation("C15", "local reader panicked on a read error", &line); } else if i + 1 != items.len() { st.violation("C08", "items after an error", &line); } }
            }
        }
        if !matches!(items.last(), Some(Err(_))) && items.len() != ranges.len() { st.violation("C08", "local reader stream ended early without an error", &line); }
    }
    // one IoReader used several times (as Archive does: header reads, then a chunk stream): a read_at and / or a
    // partly consumed stream first, then a stream that starts at offset 0 or anywhere else -- the position left by
    // earlier calls must not matter
    for _ in 0..(n / 4) {
        let flen = rng.range(40, 300) as usize;
        let file: Vec<u8> = (0..flen).map(|_| rng.next() as u8).collect();
        let mut ranges = gen_ranges(&mut rng, flen);
        if rng.chance(1, 2) {
            // start at the very beginning of the file, adjacent chunks following
            let mut pos = 0u64; let mut v = vec![];
            for _ in 0..rng.range(1, 4) { let sz = rng.range(1, 12) as usize; if pos as usize + sz <= flen { v.push((pos, sz)); pos += sz as u64; } }
            v.extend(ranges.into_iter().filter(|(o, _)| *o >= pos));
            ranges = v;
        }
        let sched: Vec<Ev> = gen_sched(&mut rng, 300).into_iter().take(200).collect();
        let sp2: Vec<u8> = (0..ranges.len() + 6).map(|_| if rng.chance(1, 2) { 0 } else { rng.range(1, 3) as u8 }).collect();
        let pre_at = rng.chance(2, 3);
        let pre_stream = rng.chance(1, 2);
        let (f2, r2, s2) = (file.clone(), ranges.clone(), sched.clone());
        let r = std::panic::catch_unwind(move || {
            let rt = tokio::runtime::Builder::new_current_thread().build().unwrap();
            rt.block_on(async move {
                let flen = f2.len();
                let mut reader = IoReader::new(ScriptFile::new(f2, vec![], sp2));
                if pre_at { let _ = reader.read_at((flen / 3) as u64, (flen / 4).max(1)).await; }
                if pre_stream {
                    let mut st0 = reader.read_chunks(vec![ChunkOffset::new(5, 7), ChunkOffset::new(12, 3), ChunkOffset::new(20, 4)]);
                    let _ = st0.next().await;
                }
                // the scripted read sizes apply to the stream under test only
                let mut stt = reader.read_chunks(r2.iter().map(|(o, s)| ChunkOffset::new(*o, *s)).collect());
                let _ = &s2;
                let mut items: Vec<Result<Vec<u8>, String>> = vec![];
                while let Some(it) = stt.next().await {
                    match it { Ok(b) => items.push(Ok(b.to_vec())), Err(e) => { items.push(Err(if e.kind() == std::io::ErrorKind::UnexpectedEof { "EOF".into() } else { "IO".into() })); break; } }
                }
                items
            })
        });
        let items = r.unwrap_or_else(|_| vec![Err("PANIC".to_string())]);
        let line = format!("ioread {} {} -", hex(&file), if ranges.is_empty() { "-".into() } else { ranges.iter().map(|(o, s)| format!("{}+{}", o, s)).collect::<Vec<_>>().join(",") });
        st.evaluations += 1;
        st.oracle_checks += 1;
        st.count(&format!("ioread/reader-reused/at={}/stream={}", pre_at, pre_stream));
        for (k, (o, s)) in ranges.iter().enumerate() {
            let end = *o as usize + s;
            match items.get(k) {
                Some(Ok(d)) => if end > file.len() || d[..] != file[*o as usize..end] { st.violation("C08", &format!("local reader used before: item {} is not the requested bytes", k), &line); break; },
                _ => { st.violation("C08", &format!("local reader used before: item {} missing or an error", k), &line); break; }
            }
        }
        out.push(&line, &items_str(&items));
    }
    out.finish();
}

pub fn replay(line: &str) -> Result<(), String> {
    let t: Vec<&str> = line.split(' ').collect();
    match t[0] {
        "http" => {
            let file = unhex(t[1]);
            let ranges: Vec<(u64, usize)> = if t[2] == "-" { vec![] } else { t[2].split(',').map(|r| { let p: Vec<&str> = r.split('+').collect(); (p[0].parse().unwrap(), p[1].parse().unwrap()) }).collect() };
            let script = parse_script(t[4]);
            let (items, log) = run_http_chunks(&file, &ranges, t[3].parse().unwrap(), script.clone());
            if items.iter().any(|x| x == &Err("PANIC".to_string())) { return Err("panic".into()); }
            if script.is_empty() {
                if log != runs(&ranges) { return Err(format!("requests {:?} are not the maximal runs {:?}", log, runs(&ranges))); }
                let want: Vec<Result<Vec<u8>, String>> = ranges.iter().map(|(o, s)| Ok(file[*o as usize..*o as usize + s].to_vec())).collect();
                if items != want { return Err("items are not the requested bytes".into()); }
            }
            Ok(())
        }
        _ => Err("unknown".into()),
    }
}
