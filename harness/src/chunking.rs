//! Suites `hash`, `stream`, `oneshot` (model-vs-implementation cases for C09/C10) and the
//! implementation-side property oracles for C09 (tiling, sizes, first-match rule with an independent
//! pure window hash, schedule independence) and C10 (resynchronisation).
use crate::util::*;
use bitar::chunker::{Config, FilterBits, FilterConfig};
use futures_util::StreamExt;

#[derive(Clone, Debug)]
pub struct Cfg {
    pub algo: char, // 'B','R','F'
    pub bits: u32,
    pub min: usize,
    pub max: usize,
    pub win: usize,
}

impl Cfg {
    pub fn to_config(&self) -> Config {
        let fc = FilterConfig {
            filter_bits: FilterBits::from_bits(self.bits),
            min_chunk_size: self.min,
            max_chunk_size: self.max,
            window_size: self.win,
        };
        match self.algo {
            'B' => Config::BuzHash(fc),
            'R' => Config::RollSum(fc),
            _ => Config::FixedSize(self.max),
        }
    }
    pub fn line(&self) -> String {
        format!("{} {} {} {} {}", self.algo, self.bits, self.min, self.max, self.win)
    }
    pub fn parse(t: &[&str]) -> Cfg {
        Cfg {
            algo: t[0].chars().next().unwrap(),
            bits: t[1].parse().unwrap(),
            min: t[2].parse().unwrap(),
            max: t[3].parse().unwrap(),
            win: t[4].parse().unwrap(),
        }
    }
}

/// valid configuration in the sense of C01/C09
pub fn gen_cfg(rng: &mut Rng, small: bool) -> Cfg {
    let algo = *rng.pick(&['B', 'R', 'B', 'R', 'F']);
    if algo == 'F' {
        let max = if small { rng.range(1, 40) } else { *rng.pick(&[1u64, 7, 64, 1000, 4096, 65536, 1 << 20]) } as usize;
        return Cfg { algo, bits: 0, min: 0, max, win: 0 };
    }
    let win = if small {
        *rng.pick(&[1u64, 2, 3, 4, 5, 8, 16, 31, 32, 33])
    } else {
        *rng.pick(&[1u64, 4, 16, 16, 32, 64, 64, 100, 256])
    } as usize;
    let min = match rng.below(5) {
        0 => 0,
        1 => rng.range(0, win as u64) as usize,              // < or = window
        2 => win,                                            // == window
        3 => win + 1,
        _ => win + rng.range(1, if small { 40 } else { 5000 }) as usize,
    };
    let lo = min.max(win).max(1);
    let max = match rng.below(4) {
        0 => lo,
        1 => lo + 1,
        _ => lo + rng.range(1, if small { 200 } else { 70000 }) as usize,
    };
    let bits = if small { rng.range(1, 5) } else { *rng.pick(&[1u64, 2, 3, 5, 8, 10, 12, 16, 24]) } as u32;
    Cfg { algo, bits, min, max, win }
}

pub fn run_chunker(cfg: &Cfg, data: &[u8], sched: Vec<Ev>) -> Result<(Vec<(u64, Vec<u8>)>, Vec<Ev>), String> {
    let config = cfg.to_config();
    let data = data.to_vec();
    let r = std::panic::catch_unwind(move || {
        let rt = tokio::runtime::Builder::new_current_thread().build().unwrap();
        rt.block_on(async move {
            let mut reader = ScriptReader::new(data, sched);
            let mut out = vec![];
            {
                let mut st = config.new_chunker(&mut reader);
                let mut guard = 0u64;
                while let Some(item) = st.next().await {
                    match item {
                        Ok((off, chunk)) => out.push((off, chunk.data().to_vec())),
                        Err(e) => return Err(format!("io error {}", e)),
                    }
                    guard += 1;
                    if guard > 50_000_000 {
                        return Err("unbounded".to_string());
                    }
                }
            }
            Ok((out, reader.log))
        })
    });
    match r {
        Ok(x) => x,
        Err(_) => Err("PANIC".to_string()),
    }
}

pub fn chunks_line(ch: &[(u64, Vec<u8>)]) -> String {
    let mut s = String::from("OK");
    for (o, d) in ch {
        s.push_str(&format!(" {}:{}", o, d.len()));
    }
    if ch.is_empty() {
        s.push(' ');
    }
    s.trim_end().to_string() + if ch.is_empty() { " " } else { "" }
}

// ---------------------------------------------------------------------------------------------
// Independent pure window hashes (written from the definitions, not from bitar's code)

const BUZ_SEED: u32 = 0x1032_4195;

pub fn buz_table() -> Vec<u32> {
    // the table is data, read from the source file at run time so that the oracle follows the tree
    let repo = std::env::var("VERIF_REPO").unwrap_or_else(|_| "/repo".to_string());
    let src = std::fs::read_to_string(format!("{}/bitar/src/rolling_hash/buzhash.rs", repo)).unwrap();
    let start = src.find("static BUZHASH_TABLE").unwrap();
    let end = src[start..].find("];").unwrap() + start;
    let body = &src[start..end];
    let body = &body[body.find("= &[").unwrap() + 4..];
    body.split(',')
        .filter_map(|t| {
            let t = t.trim().replace('_', "");
            t.strip_prefix("0x").map(|h| u32::from_str_radix(h, 16).unwrap())
        })
        .collect()
}

/// pure BuzHash of exactly W bytes
pub fn buz_pure(table: &[u32], w: &[u8]) -> u32 {
    let n = w.len();
    let mut h = 0u32;
    for (i, b) in w.iter().enumerate() {
        h ^= (table[*b as usize] ^ BUZ_SEED).rotate_left(((n - 1 - i) % 32) as u32);
    }
    h
}

/// pure RollSum of exactly W bytes (oldest first)
pub fn rs_pure(w: &[u8]) -> u32 {
    let n = w.len() as u32;
    let mut s1 = 0u32;
    let mut s2 = 0u32;
    for (i, b) in w.iter().enumerate() {
        let v = *b as u32 + 31;
        s1 = s1.wrapping_add(v);
        s2 = s2.wrapping_add((n - i as u32).wrapping_mul(v));
    }
    // constant offset of the implementation's start value: 31*W*(W-1) - 31*W*(W+1)/2
    let c = 31u32
        .wrapping_mul(n)
        .wrapping_mul(n.wrapping_sub(1))
        .wrapping_sub(31u32.wrapping_mul(n.wrapping_mul(n.wrapping_add(1)) / 2));
    s2 = s2.wrapping_add(c);
    (s1 << 16) | (s2 & 0xffff)
}

fn window_at(data: &[u8], end: usize, w: usize) -> Vec<u8> {
    // the W bytes ending at stream position `end`, zero padded before the stream start
    let mut v = vec![0u8; w];
    let have = end.min(w);
    v[w - have..].copy_from_slice(&data[end - have..end]);
    v
}

/// The chunk list the rule of C09 prescribes (reference chunker).  `known_class` collects positions where
/// the literal rule and the implementation are known to differ (finding F6: BuzHash never tests the
/// first W positions of the stream).
pub fn reference_chunks(table: &[u32], cfg: &Cfg, data: &[u8], literal: bool) -> Vec<(u64, usize)> {
    let mut out = vec![];
    let n = data.len();
    if cfg.algo == 'F' {
        let mut s = 0;
        while s < n {
            let l = cfg.max.min(n - s);
            out.push((s as u64, l));
            s += l;
        }
        return out;
    }
    let mask: u32 = if cfg.bits >= 32 { !0 } else { (1u32 << cfg.bits) - 1 };
    let mut s = 0usize;
    while s < n {
        let mut p = 1usize;
        let mut cut = None;
        while s + p <= n {
            if p >= cfg.max {
                cut = Some(p);
                break;
            }
            let mut tested = p >= cfg.min.max(1);
            if cfg.algo == 'B' {
                // BuzHash feeds the first W bytes of the stream through init(): positions <= W of the
                // stream are never tested (F6); the literal rule would test position W.
                let first_tested = if literal { cfg.win } else { cfg.win + 1 };
                if s + p < first_tested {
                    tested = false;
                }
            }
            if tested {
                let w = window_at(data, s + p, cfg.win);
                let sum = if cfg.algo == 'B' { buz_pure(table, &w) } else { rs_pure(&w) };
                if sum | mask == sum {
                    cut = Some(p);
                    break;
                }
            }
            p += 1;
        }
        match cut {
            Some(p) => {
                out.push((s as u64, p));
                s += p;
            }
            None => {
                out.push((s as u64, n - s));
                s = n;
            }
        }
    }
    out
}

/// C09 oracle on the implementation's output. Returns a description of the first violated clause.
pub fn c09_oracle(table: &[u32], cfg: &Cfg, data: &[u8], chunks: &[(u64, Vec<u8>)]) -> Result<bool, String> {
    // tiling
    let mut pos = 0u64;
    let mut cat = Vec::with_capacity(data.len());
    for (i, (o, d)) in chunks.iter().enumerate() {
        if *o != pos {
            return Err(format!("chunk {} offset {} expected {}", i, o, pos));
        }
        if d.is_empty() {
            return Err(format!("chunk {} is empty", i));
        }
        pos += d.len() as u64;
        cat.extend_from_slice(d);
    }
    if cat != data {
        return Err("concatenation of chunks differs from input".into());
    }
    // sizes
    for (i, (_, d)) in chunks.iter().enumerate() {
        let last = i + 1 == chunks.len();
        if cfg.algo == 'F' {
            if (!last && d.len() != cfg.max) || d.len() > cfg.max {
                return Err(format!("fixed chunk {} has size {}", i, d.len()));
            }
        } else {
            if d.len() > cfg.max || (!last && d.len() < cfg.min) {
                return Err(format!("chunk {} size {} outside [{}, {}]", i, d.len(), cfg.min, cfg.max));
            }
        }
    }
    // boundary rule
    let got: Vec<(u64, usize)> = chunks.iter().map(|(o, d)| (*o, d.len())).collect();
    let want = reference_chunks(table, cfg, data, false);
    if got != want {
        let k = got.iter().zip(want.iter()).position(|(a, b)| a != b).unwrap_or(got.len().min(want.len()));
        return Err(format!(
            "boundary rule: chunk {} is {:?}, rule gives {:?}",
            k,
            got.get(k),
            want.get(k)
        ));
    }
    // known finding F6: literal rule (BuzHash, position W of the stream tested) differs?
    let lit = reference_chunks(table, cfg, data, true);
    Ok(lit != want)
}

// ---------------------------------------------------------------------------------------------

pub fn suite_hash(dir: &str, seed: u64, thorough: bool, st: &mut Stats) {
    use bitar::verif::{BuzHash, RollSum, RollingHash};
    let mut rng = Rng::new(seed ^ 0x11);
    let mut out = SuiteOut::new(dir, "hash");
    let n = if thorough { 6000 } else { 250 };
    let table = buz_table();
    for i in 0..n {
        // windows large enough for the 32-bit sums to wrap (RollSum: s2 ~ w^2/2 * (byte + 31) passes 2^32 from w ~ 5500)
        let wide = i >= 40 && i < 40 + if thorough { 24 } else { 5 };
        let w = if i < 40 { (i % 20 + 1) as usize } else if wide { *rng.pick(&[4800usize, 5600, 6000, 8192, 7001]) } else { *rng.pick(&[1usize, 2, 3, 4, 8, 16, 31, 32, 33, 64, 100, 255, 256]) };
        let len = if wide { w + rng.range(500, 3000) as usize } else { rng.range(0, if thorough { 3000 } else { 1200 }) as usize };
        let (mut data, kind) = gen_data(&mut rng, len);
        if wide { for b in data.iter_mut() { if rng.chance(3, 4) { *b |= 0xe0; } } }
        let algo = if rng.chance(1, 2) { 'R' } else { 'B' };
        let mut sums: Vec<u32> = vec![];
        if algo == 'R' {
            let mut h = RollSum::new(w);
            for b in &data {
                RollingHash::input(&mut h, *b);
                sums.push(RollingHash::sum(&h));
            }
            // oracle: pure window hash
            for (k, s) in sums.iter().enumerate() {
                if wide && k % 53 != 0 && k + 1 != data.len() { continue; }
                st.oracle_checks += 1;
                if *s != rs_pure(&window_at(&data, k + 1, w)) {
                    st.violation("C09", &format!("RollSum sum after byte {} is not the hash of the trailing window", k),
                        &format!("hash R {} {}", w, hex(&data)));
                    break;
                }
            }
        } else {
            let mut h = BuzHash::new(w);
            for (k, b) in data.iter().enumerate() {
                if RollingHash::init_done(&h) {
                    RollingHash::input(&mut h, *b);
                } else {
                    RollingHash::init(&mut h, *b);
                }
                if RollingHash::init_done(&h) {
                    let s = RollingHash::sum(&h);
                    sums.push(s);
                    if wide && k % 53 != 0 && k + 1 != data.len() { continue; }
                    st.oracle_checks += 1;
                    if s != buz_pure(&table, &window_at(&data, k + 1, w)) {
                        st.violation("C09", &format!("BuzHash sum after byte {} is not the hash of the trailing window", k),
                            &format!("hash B {} {}", w, hex(&data)));
                        break;
                    }
                }
            }
        }
        let line = format!("hash {} {} {}", algo, w, hex(&data));
        let imp = format!("OK {}", sums.iter().map(|s| s.to_string()).collect::<Vec<_>>().join(" "));
        st.evaluations += 1;
        st.count(&format!("hash/{}/{}{}", algo, kind, if wide { "/wide-window" } else { "" }));
        if data.len() > w {
            st.nontrivial_key(line.as_bytes());
        }
        st.sample(line.clone());
        out.push(&line, imp.trim_end());
    }
    out.finish();
}

fn check_c09(table: &[u32], cfg: &Cfg, data: &[u8], chunks: &[(u64, Vec<u8>)], sched: &[Ev], st: &mut Stats) {
    st.oracle_checks += 1;
    match c09_oracle(table, cfg, data, chunks) {
        Ok(f6) => {
            if f6 {
                st.count("known-finding-F6-instances");
            }
        }
        Err(what) => st.violation("C09", &what, &format!("stream {} {} {}", cfg.line(), hex(data), sched_str(sched))),
    }
}

/// small streams, model run with the recorded schedule (buffer-level model)
pub fn suite_stream(dir: &str, seed: u64, thorough: bool, st: &mut Stats) {
    let mut rng = Rng::new(seed ^ 0x22);
    let mut out = SuiteOut::new(dir, "stream");
    let mut spec = SuiteOut::new(dir, "stream-spec");
    let table = buz_table();
    let n = if thorough { 24000 } else { 700 };
    for _ in 0..n {
        let cfg = gen_cfg(&mut rng, true);
        let len = match rng.below(10) {
            0 => rng.range(0, 3) as usize,
            1 => cfg.win.saturating_sub(1) + rng.below(3) as usize,
            2 => cfg.min.saturating_sub(1) + rng.below(3) as usize,
            3 => cfg.max.saturating_sub(1) + rng.below(3) as usize,
            _ => rng.range(0, 1500) as usize,
        };
        let (data, kind) = gen_data(&mut rng, len);
        let sched = gen_sched(&mut rng, len);
        let res = run_chunker(&cfg, &data, sched.clone());
        let (imp, log) = match &res {
            Ok((ch, log)) => {
                check_c09(&table, &cfg, &data, ch, &sched, st);
                // schedule independence on the implementation itself
                let alt = gen_sched(&mut rng, len);
                if let Ok((ch2, _)) = run_chunker(&cfg, &data, alt.clone()) {
                    st.oracle_checks += 1;
                    if &ch2 != ch {
                        st.violation("C09", "chunk list depends on the read schedule",
                            &format!("stream2 {} {} {} {}", cfg.line(), hex(&data), sched_str(&sched), sched_str(&alt)));
                    }
                }
                (chunks_line(ch), log.clone())
            }
            Err(e) => {
                st.violation("C09", &format!("chunker failed on a valid configuration: {}", e),
                    &format!("stream {} {} {}", cfg.line(), hex(&data), sched_str(&sched)));
                (e.clone(), sched.clone())
            }
        };
        let line = format!("stream {} {} {}", cfg.line(), hex(&data), sched_str(&log));
        st.evaluations += 1;
        st.count(&format!("stream/{}/{}", cfg.algo, kind));
        st.count(&format!("stream/min-vs-win/{}", if cfg.algo == 'F' { "fixed" } else if cfg.min < cfg.win { "lt" } else if cfg.min == cfg.win { "eq" } else { "gt" }));
        if let Ok((ch, _)) = &res {
            if ch.len() >= 2 {
                st.nontrivial_key(line.as_bytes());
            }
            st.count(&format!("stream/chunks/{}", match ch.len() { 0 => "0", 1 => "1", 2..=9 => "2-9", _ => "10+" }));
        }
        st.sample(line.clone());
        out.push(&line, imp.trim_end());
        if res.is_ok() {
            spec.push(&format!("spec {} {}", cfg.line(), hex(&data)), imp.trim_end());
        }
    }
    out.finish();
    spec.finish();
}

/// larger streams against the one-shot automaton; implementation run under random schedules
pub fn suite_oneshot(dir: &str, seed: u64, thorough: bool, st: &mut Stats) {
    let mut rng = Rng::new(seed ^ 0x33);
    let mut out = SuiteOut::new(dir, "oneshot");
    let table = buz_table();
    let n = if thorough { 1200 } else { 120 };
    let big = if thorough { 8 } else { 2 };
    let nwide = if thorough { 12 } else { 3 };
    for i in 0..(n + big) {
        let is_big = i >= n;
        let is_wide = i < nwide;
        let cfg = if is_wide {
            // a rolling window wide enough for the 32-bit sums to wrap
            let win = *rng.pick(&[5600usize, 6000, 8192]);
            let min = *rng.pick(&[0usize, 100, win, win + 50]);
            Cfg { algo: *rng.pick(&['R', 'R', 'B']), bits: rng.range(2, 12) as u32, min, max: win.max(min) + rng.range(0, 9000) as usize, win }
        } else if is_big {
            // max above the 1 MiB refill size so that a chunk spans several refills
            let algo = *rng.pick(&['B', 'R']);
            Cfg { algo, bits: 20, min: *rng.pick(&[0usize, 16, 64, 4096]), max: (1 << 20) + rng.range(1, 5000) as usize, win: *rng.pick(&[16usize, 64]) }
        } else {
            gen_cfg(&mut rng, false)
        };
        let len = if is_wide { rng.range(8000, 26_000) as usize } else if is_big { (1 << 20) + rng.range(1, 300_000) as usize } else { rng.range(0, if thorough { 120_000 } else { 40_000 }) as usize };
        let (mut data, kind) = gen_data(&mut rng, len);
        if is_wide { for b in data.iter_mut() { if rng.chance(3, 4) { *b |= 0xe0; } } }
        let sched = gen_sched(&mut rng, len);
        let res = run_chunker(&cfg, &data, sched.clone());
        let imp = match &res {
            Ok((ch, _)) => {
                if !is_big || cfg.win <= 16 {
                    check_c09(&table, &cfg, &data, ch, &sched, st);
                }
                let alt = gen_sched(&mut rng, len);
                if let Ok((ch2, _)) = run_chunker(&cfg, &data, alt.clone()) {
                    st.oracle_checks += 1;
                    if &ch2 != ch {
                        st.violation("C09", "chunk list depends on the read schedule",
                            &format!("stream2 {} {} {} {}", cfg.line(), hex(&data), sched_str(&sched), sched_str(&alt)));
                    }
                }
                chunks_line(ch)
            }
            Err(e) => {
                st.violation("C09", &format!("chunker failed on a valid configuration: {}", e),
                    &format!("stream {} {} {}", cfg.line(), hex(&data), sched_str(&sched)));
                e.clone()
            }
        };
        let line = format!("oneshot {} {}", cfg.line(), hex(&data));
        st.evaluations += 1;
        st.count(&format!("oneshot/{}/{}{}", cfg.algo, kind, if is_big { "/big" } else if is_wide { "/wide-window" } else { "" }));
        if let Ok((ch, _)) = &res {
            if ch.len() >= 2 {
                st.nontrivial_key(line.as_bytes());
            }
        }
        st.sample(format!("oneshot {} <{} bytes {}> sched={}", cfg.line(), len, kind, sched_str(&sched[..sched.len().min(6)])));
        out.push(&line, imp.trim_end());
    }
    out.finish();
}

/// exhaustive small scope: all strings up to length L over a 3-letter alphabet x tiny configs
pub fn suite_exhaustive(dir: &str, _seed: u64, thorough: bool, st: &mut Stats) {
    let mut out = SuiteOut::new(dir, "exh");
    let table = buz_table();
    let maxlen = if thorough { 9 } else { 7 };
    let alpha = [0u8, 9, 1];
    let cfgs = [
        Cfg { algo: 'R', bits: 1, min: 0, max: 4, win: 2 },
        Cfg { algo: 'R', bits: 2, min: 2, max: 5, win: 2 },
        Cfg { algo: 'R', bits: 1, min: 3, max: 6, win: 1 },
        Cfg { algo: 'B', bits: 1, min: 0, max: 4, win: 2 },
        Cfg { algo: 'B', bits: 1, min: 2, max: 5, win: 2 },
        Cfg { algo: 'B', bits: 2, min: 3, max: 6, win: 1 },
        Cfg { algo: 'B', bits: 1, min: 1, max: 3, win: 3 },
        Cfg { algo: 'F', bits: 0, min: 0, max: 3, win: 0 },
    ];
    for len in 0..=maxlen {
        let total = 3usize.pow(len as u32);
        for code in 0..total {
            let mut c = code;
            let data: Vec<u8> = (0..len).map(|_| { let d = alpha[c % 3]; c /= 3; d }).collect();
            for (ci, cfg) in cfgs.iter().enumerate() {
                // rotate through schedules deterministically
                let sched = match (code + ci) % 3 {
                    0 => vec![],
                    1 => (0..len).map(|_| Ev::Read(1)).collect(),
                    _ => (0..len).flat_map(|_| [Ev::Pending, Ev::Read(2)]).collect(),
                };
                let res = run_chunker(cfg, &data, sched.clone());
                let (imp, log) = match &res {
                    Ok((ch, log)) => {
                        check_c09(&table, cfg, &data, ch, &sched, st);
                        (chunks_line(ch), log.clone())
                    }
                    Err(e) => {
                        st.violation("C09", &format!("chunker failed: {}", e), &format!("stream {} {} {}", cfg.line(), hex(&data), sched_str(&sched)));
                        (e.clone(), sched.clone())
                    }
                };
                let line = format!("stream {} {} {}", cfg.line(), hex(&data), sched_str(&log));
                st.evaluations += 1;
                if len >= 2 {
                    st.nontrivial_key(line.as_bytes());
                }
                out.push(&line, imp.trim_end());
            }
        }
    }
    st.count(&format!("exh/maxlen={}", maxlen));
    out.finish();
}

// ---------------------------------------------------------------------------------------------
// C10: resynchronisation pairs (implementation-side oracle; model side is covered by the same suites)

pub fn c10_oracle(cfg: &Cfg, p1: &[u8], p2: &[u8], s: &[u8]) -> Result<bool, String> {
    let d1 = [p1, s].concat();
    let d2 = [p2, s].concat();
    // the two streams are also delivered differently (whole / in pieces of a size derived from the lengths): where a
    // stream is cut into reads and buffer refills must not matter either
    let sched_of = |n: usize, k: usize| -> Vec<Ev> { if (n + k) % 3 == 0 { vec![] } else { let step = 1 + (n * 7 + k * 13) % 4099; (0..(n / step + 2)).flat_map(|i| if i % 5 == 4 { vec![Ev::Pending, Ev::Read(step)] } else { vec![Ev::Read(step)] }).collect() } };
    let (c1, _) = run_chunker(cfg, &d1, sched_of(d1.len(), 1)).map_err(|e| format!("chunker failed: {}", e))?;
    let (c2, _) = run_chunker(cfg, &d2, sched_of(d2.len(), 2)).map_err(|e| format!("chunker failed: {}", e))?;
    // boundaries in S coordinates (end positions of chunks)
    let ends = |c: &Vec<(u64, Vec<u8>)>, pl: usize| -> Vec<i64> { c.iter().map(|(o, d)| *o as i64 + d.len() as i64 - pl as i64).collect() };
    let e1 = ends(&c1, p1.len());
    let e2 = ends(&c2, p2.len());
    let w = if cfg.algo == 'F' { 0 } else { cfg.win as i64 };
    // first common boundary at S position k >= W (k > 0)
    let common = e1.iter().find(|k| **k >= w && **k > 0 && e2.contains(k) && (**k as usize) < s.len());
    match common {
        None => Ok(false),
        Some(k) => {
            let a: Vec<i64> = e1.iter().copied().filter(|x| x > k).collect();
            let b: Vec<i64> = e2.iter().copied().filter(|x| x > k).collect();
            if a != b {
                Err(format!("after common boundary at S+{} the boundaries differ: {:?} vs {:?}", k, &a[..a.len().min(6)], &b[..b.len().min(6)]))
            } else {
                Ok(true)
            }
        }
    }
}

pub fn suite_resync(dir: &str, seed: u64, thorough: bool, st: &mut Stats) {
    // model-side cases: both streams as oneshot cases; the oracle runs on the implementation
    let mut rng = Rng::new(seed ^ 0x44);
    let mut out = SuiteOut::new(dir, "resync");
    let n = if thorough { 16000 } else { 500 };
    let nwide = if thorough { 40 } else { 6 };
    for i in 0..n {
        // a few cases with a window wide enough for the 32-bit sums to wrap: the hash must still be a function of the
        // window alone, whatever was fed before
        let wide = i < nwide;
        let long = i >= nwide && i < nwide + if thorough { 10 } else { 2 };
        let cfg = if long {
            Cfg { algo: *rng.pick(&['R', 'B']), bits: rng.range(9, 13) as u32, min: *rng.pick(&[0usize, 512, 4096]), max: 65536, win: *rng.pick(&[16usize, 64]) }
        } else if wide {
            let win = *rng.pick(&[5600usize, 6000, 8192]);
            Cfg { algo: *rng.pick(&['R', 'R', 'B']), bits: rng.range(3, 11) as u32, min: *rng.pick(&[0usize, win / 2, win]), max: win + rng.range(0, 6000) as usize, win }
        } else { gen_cfg(&mut rng, true) };
        let (mut s, kind) = { let l = if long { rng.range(1_100_000, 1_900_000) } else if wide { rng.range(15_000, 40_000) } else { rng.range(1, 1200) } as usize; if long { ((0..l).map(|_| rng.next() as u8).collect(), "random") } else { gen_data(&mut rng, l) } };
        if wide { for b in s.iter_mut() { if rng.chance(3, 4) { *b |= 0xe0; } } }
        let mut mk_prefix = |rng: &mut Rng| -> Vec<u8> {
            if long { let l = rng.range(0, 300_000) as usize; return (0..l).map(|_| rng.next() as u8).collect(); }
            if wide { let l = rng.range(0, 12_000) as usize; let mut v = gen_data(rng, l).0; if rng.chance(1, 2) { for b in v.iter_mut() { *b |= 0xf0; } } return v; }
            match rng.below(6) {
                0 => vec![],
                1 => { let l = rng.range(1, cfg.win.max(1) as u64) as usize; gen_data(rng, l).0 }
                2 => vec![0u8; rng.range(1, 300) as usize],
                3 => { let l = rng.range(1, 200) as usize; let mut v = gen_data(rng, l).0; v.extend(vec![0u8; rng.range(0, 80) as usize]); v }
                4 => { if cfg.algo == 'F' { vec![7u8; cfg.max * rng.range(0, 4) as usize] } else { let l = rng.range(1, 500) as usize; gen_data(rng, l).0 } }
                _ => { let l = rng.range(1, 500) as usize; gen_data(rng, l).0 }
            }
        };
        let mut p1 = mk_prefix(&mut rng);
        let mut p2 = mk_prefix(&mut rng);
        if cfg.algo == 'F' {
            // FixedSize: aligned prefixes only
            p1.truncate(p1.len() / cfg.max * cfg.max);
            p2.truncate(p2.len() / cfg.max * cfg.max);
        }
        st.oracle_checks += 1;
        match c10_oracle(&cfg, &p1, &p2, &s) {
            Ok(nontrivial) => {
                st.evaluations += 1;
                st.count(&format!("resync/{}/{}/{}{}", cfg.algo, kind, if nontrivial { "common-boundary" } else { "no-common-boundary" }, if wide { "/wide-window" } else { "" }));
                if nontrivial {
                    st.nontrivial_key(format!("{}{}{}{}", cfg.line(), hex(&p1), hex(&p2), hex(&s)).as_bytes());
                }
            }
            Err(what) => st.violation("C10", &what, &format!("resync {} {} {} {}", cfg.line(), hex(&p1), hex(&p2), hex(&s))),
        }
        st.sample(format!("resync {} p1={} p2={} |S|={}", cfg.line(), p1.len(), p2.len(), s.len()));
        if long { continue; }
        for p in [&p1, &p2] {
            let d = [p.as_slice(), s.as_slice()].concat();
            if let Ok((ch, _)) = run_chunker(&cfg, &d, vec![]) {
                out.push(&format!("oneshot {} {}", cfg.line(), hex(&d)), chunks_line(&ch).trim_end());
            }
        }
    }
    // windows of 2^16 bytes and more (run counters and ring indexes beyond 16 bits), a long run of one byte inside the
    // common data: implementation-side oracle only (the model would take O(window) per byte)
    for k in 0..(if thorough { 6 } else { 2 }) {
        let win = *rng.pick(&[65536usize, 65536 + 40, 70000]);
        let cfg = Cfg { algo: if k % 2 == 0 { 'B' } else { 'R' }, bits: 8, min: win + rng.range(1000, 6000) as usize, max: 200_000, win };
        let mut s: Vec<u8> = vec![if rng.chance(1, 2) { 0 } else { rng.next() as u8 }; rng.range(300_000, 500_000) as usize];
        s.extend((0..rng.range(400_000, 600_000)).map(|_| rng.next() as u8));
        // the second prefix is cut at one of its own chunk ends, so that P2+S has a boundary where S begins
        let raw: Vec<u8> = (0..rng.range(250_000, 500_000)).map(|_| rng.next() as u8).collect();
        let p2: Vec<u8> = match run_chunker(&cfg, &raw, vec![]) { Ok((ch, _)) if ch.len() >= 2 => { let l: usize = ch[..ch.len() - 1].iter().map(|c| c.1.len()).sum(); raw[..l].to_vec() } _ => raw };
        let p1: Vec<u8> = vec![];
        st.oracle_checks += 1;
        st.evaluations += 1;
        match c10_oracle(&cfg, &p1, &p2, &s) {
            Ok(nontrivial) => st.count(&format!("resync/{}/window>=2^16/{}", cfg.algo, if nontrivial { "common-boundary" } else { "no-common-boundary" })),
            Err(what) => st.violation("C10", &format!("window {}: {}", win, what), &format!("resync-hugewin {} |P2|={} |S|={} seed={}", cfg.line(), p2.len(), s.len(), seed)),
        }
    }
    out.finish();
}

/// replay of a stored case line against the implementation oracles
pub fn replay(line: &str) -> Result<(), String> {
    let t: Vec<&str> = line.split(' ').collect();
    let table = buz_table();
    match t[0] {
        "stream" => {
            let cfg = Cfg::parse(&t[1..6]);
            let data = unhex(t[6]);
            let sched = parse_sched(t.get(7).copied().unwrap_or("-"));
            let (ch, _) = run_chunker(&cfg, &data, sched)?;
            c09_oracle(&table, &cfg, &data, &ch).map(|_| ())
        }
        "stream2" => {
            let cfg = Cfg::parse(&t[1..6]);
            let data = unhex(t[6]);
            let (a, _) = run_chunker(&cfg, &data, parse_sched(t[7]))?;
            let (b, _) = run_chunker(&cfg, &data, parse_sched(t[8]))?;
            if a != b { Err("chunk list depends on the read schedule".into()) } else { Ok(()) }
        }
        "f6" => {
            // known finding F6: the literal rule of C09 (stream position W tested) vs the implementation
            let cfg = Cfg::parse(&t[1..6]);
            let data = unhex(t[6]);
            let (ch, _) = run_chunker(&cfg, &data, vec![])?;
            let got: Vec<(u64, usize)> = ch.iter().map(|(o, d)| (*o, d.len())).collect();
            let lit = reference_chunks(&table, &cfg, &data, true);
            if got != lit { Err(format!("literal rule gives {:?}, implementation {:?}", &lit[..lit.len().min(3)], &got[..got.len().min(3)])) } else { Ok(()) }
        }
        "resync" => {
            let cfg = Cfg::parse(&t[1..6]);
            c10_oracle(&cfg, &unhex(t[6]), &unhex(t[7]), &unhex(t[8])).map(|_| ())
        }
        _ => Err(format!("unknown replay kind {}", t[0])),
    }
}
