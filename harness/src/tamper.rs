//! Suites `conform` (C17: independent encoder -> real reader/clone), `corrupt` (C04: tampered archives and
//! misbehaving servers never give a successful wrong clone) and the post-open operations of C15.
use crate::archive::{b2, make_header, run_create_archive, try_init_line, CompressCase};
use crate::http::{SItem, ScriptServer};
use crate::memfile::MemFile;
use crate::pb::*;
use crate::util::*;
use bitar::archive_reader::{ArchiveReader, HttpReader, IoReader};
use bitar::{Archive, CloneOutput, Compression};
use futures_util::StreamExt;
use std::io::Cursor;
use std::time::Duration;

/// the archive phase of clone_cmd at the library level, over any reader; seeds are fed first
pub async fn clone_pipeline<R>(reader: R, seeds: &[Vec<u8>]) -> Result<Vec<u8>, String>
where
    R: ArchiveReader,
    R::Error: std::fmt::Debug,
{
    clone_pipeline_full(reader, vec![], false, seeds).await
}

/// clone_archive of src/clone_cmd.rs at the library level: an existing output (`prior`), optionally scanned and
/// re-ordered in place, then the seeds in order, then the archive, then the resize
pub async fn clone_pipeline_full<R>(reader: R, prior: Vec<u8>, inplace: bool, seeds: &[Vec<u8>]) -> Result<Vec<u8>, String>
where
    R: ArchiveReader,
    R::Error: std::fmt::Debug,
{
    let mut archive = Archive::try_init(reader).await.map_err(|e| format!("open: {:?}", e).chars().take(60).collect::<String>())?;
    let idx = archive.build_source_index();
    let total = archive.total_source_size();
    let mut file = MemFile::new(prior, None);
    // (an output that takes at most 5 bytes per write call: the writer has to complete its writes)
    if total % 3 == 1 { file.short = Some(5); }
    let output_index = if inplace {
        // chunk_index_from_readable
        let cfg = archive.chunker_config().clone();
        let mut index = bitar::ChunkIndex::new_empty(archive.chunk_hash_length());
        {
            let mut st = cfg.new_chunker(&mut file);
            let mut n = 0;
            while let Some(r) = st.next().await {
                let (off, chunk) = r.map_err(|e| format!("scan: {}", e))?;
                let (hash, chunk) = chunk.verify().into_parts();
                index.add_chunk(hash, chunk.len(), &[off]);
                n += 1;
                if n > 1_000_000 { return Err("unbounded".into()); }
            }
        }
        Some(index)
    } else { None };
    let mut out = CloneOutput::new(file, idx);
    if let Some(oi) = output_index {
        out.reorder_in_place(oi).await.map_err(|e| format!("reorder: {}", e))?;
    }
    for s in seeds {
        let cfg = archive.chunker_config().clone();
        let mut st = cfg.new_chunker(&s[..]);
        let mut n = 0;
        while let Some(r) = st.next().await {
            let (_, chunk) = r.map_err(|e| format!("seed: {}", e))?;
            out.feed(&chunk.verify()).await.map_err(|e| format!("feed: {}", e))?;
            n += 1;
            if n > 1_000_000 { return Err("unbounded".into()); }
        }
    }
    {
        let mut stream = archive.chunk_stream(out.chunks());
        while let Some(r) = stream.next().await {
            let c = r.map_err(|e| format!("read: {:?}", e).chars().take(60).collect::<String>())?;
            let v = c.decompress().map_err(|_| "decompress".to_string())?.verify().map_err(|_| "hash mismatch".to_string())?;
            out.feed(&v).await.map_err(|e| format!("feed: {}", e))?;
        }
    }
    // like clone_cmd: no check that every chunk arrived (an early end of the stream must be an error item)
    let mut data = out.into_inner().data;
    // set_len(total_source_size): a huge value is a sparse file or an error on a real file system
    if total > (1 << 30) { return Err("set_len: source size not plausible".into()); }
    data.resize(total as usize, 0);
    Ok(data)
}

pub fn lib_clone_full(bytes: &[u8], prior: &[u8], inplace: bool, seeds: &[Vec<u8>]) -> Result<Vec<u8>, String> {
    let bytes = bytes.to_vec();
    let seeds = seeds.to_vec();
    let prior = prior.to_vec();
    let r = std::panic::catch_unwind(move || {
        let rt = tokio::runtime::Builder::new_current_thread().enable_all().build().unwrap();
        rt.block_on(async move {
            match tokio::time::timeout(watchdog(10), clone_pipeline_full(IoReader::new(Cursor::new(bytes)), prior, inplace, &seeds)).await {
                Ok(r) => r,
                Err(_) => { watchdog_hit(); Err("TIMEOUT".to_string()) }
            }
        })
    });
    r.unwrap_or_else(|_| Err("PANIC".to_string()))
}

/// the chunks the real chunker finds in `data` under the archive's configuration
fn real_chunks(bytes: &[u8], data: &[u8]) -> Vec<Vec<u8>> {
    let bytes = bytes.to_vec();
    let data = data.to_vec();
    std::panic::catch_unwind(move || {
        let rt = tokio::runtime::Builder::new_current_thread().enable_all().build().unwrap();
        rt.block_on(async move {
            let archive = match Archive::try_init(IoReader::new(Cursor::new(bytes))).await { Ok(a) => a, Err(_) => return vec![] };
            let cfg = archive.chunker_config().clone();
            let mut st = cfg.new_chunker(&data[..]);
            let mut v = vec![];
            while let Some(Ok((_, c))) = st.next().await { v.push(c.data().to_vec()); if v.len() > 100_000 { break; } }
            v
        })
    }).unwrap_or_default()
}

/// an edit of `src` that keeps much of its content: the kind of file a seed or an old output is
fn mutate(rng: &mut Rng, src: &[u8]) -> Vec<u8> {
    let mut v = src.to_vec();
    for _ in 0..rng.range(1, 4) {
        let n = v.len();
        match rng.below(6) {
            0 if n > 0 => { let a = rng.below(n as u64) as usize; let e = (a + rng.range(1, 60) as usize).min(n); for j in a..e { v[j] = rng.next() as u8; } }
            1 => { let a = rng.below(n as u64 + 1) as usize; let ins: Vec<u8> = (0..rng.range(1, 80)).map(|_| rng.next() as u8).collect(); v.splice(a..a, ins); }
            2 if n > 0 => { let a = rng.below(n as u64) as usize; let e = (a + rng.range(1, 80) as usize).min(n); v.drain(a..e); }
            3 if n > 1 => { let k = rng.range(1, n as u64 - 1) as usize; v.rotate_left(k); }
            4 if n > 0 => { let a = rng.below(n as u64) as usize; let e = (a + rng.range(1, 200) as usize).min(n); let part = v[a..e].to_vec(); let at = rng.below(v.len() as u64 + 1) as usize; v.splice(at..at, part); }
            _ => { v.truncate(rng.below(n as u64 + 1) as usize); }
        }
    }
    v
}

/// Suite `cbytes` (C02, C03): the whole clone over byte strings -- an old output scanned and re-ordered in
/// place, seeds scanned with the archive's chunker, then the archive -- against Model/CloneBytes.v
pub fn suite_cbytes(dir: &str, seed: u64, thorough: bool, st: &mut Stats) {
    let mut rng = Rng::new(seed ^ 0xa7);
    let mut out = SuiteOut::new(dir, "cbytes");
    let n = if thorough { 8000 } else { 260 };
    for _ in 0..n {
        let len = match rng.below(10) { 0 => 0, 1 => rng.range(1, 20) as usize, _ => rng.range(20, 2500) as usize };
        let (src, kind) = gen_data(&mut rng, len);
        let real_writer = rng.chance(3, 4);
        let bytes = if real_writer {
            let cfg = crate::chunking::gen_cfg(&mut rng, true);
            let c = CompressCase { cfg, hashlen: rng.range(4, 64) as usize, comp: crate::archive::gen_comp(&mut rng), meta: Default::default(), src: src.clone() };
            match run_create_archive(&c, 2, vec![]) { Ok(b) => b, Err(_) => continue }
        } else { conforming_archive(&mut rng, &src).0 };
        let prior: Vec<u8> = match rng.below(7) {
            0 => vec![],
            1 => src.clone(),
            2 => { let mut v = src.clone(); for _ in 0..rng.range(1, 300) { v.push(rng.next() as u8); } v }
            3 => { let l = rng.range(0, 1500) as usize; gen_data(&mut rng, l).0 }
            _ => mutate(&mut rng, &src),
        };
        let inplace = !prior.is_empty() && rng.chance(3, 4);
        let seeds: Vec<Vec<u8>> = (0..rng.below(3)).map(|_| if rng.chance(1, 5) { gen_data(&mut rng, 300).0 } else { mutate(&mut rng, &src) }).collect();
        let r = lib_clone_full(&bytes, &prior, inplace, &seeds);
        st.evaluations += 1;
        st.oracle_checks += 1;
        let al = match aclone_line(&bytes) { Some(a) => a, None => continue };
        // hash table for every chunk the real chunker finds in the old output and the seeds
        let mut tab: Vec<String> = vec![];
        let mut seen = std::collections::HashSet::new();
        let mut scanned: Vec<&Vec<u8>> = seeds.iter().collect();
        if inplace { scanned.push(&prior); }
        let mut nchunks = 0;
        for d in scanned { for c in real_chunks(&bytes, d) { nchunks += 1; if seen.insert(c.clone()) { tab.push(format!("{}={}", hex(&c), hex(&b2(&c)))); } } }
        let line = format!("cbytes {} {} {} {} {}", &al["aclone ".len()..], if prior.is_empty() { "-".into() } else { hex(&prior) }, if inplace { 1 } else { 0 },
            if seeds.is_empty() { "-".into() } else { seeds.iter().map(|s| if s.is_empty() { "e".to_string() } else { hex(s) }).collect::<Vec<_>>().join(",") },
            if tab.is_empty() { "-".into() } else { tab.join(";") });
        match &r {
            Ok(got) if *got == src => {}
            Ok(_) => st.violation(if inplace { "C03" } else { "C02" }, "clone with an old output / seeds reported success with an output different from the source", &line),
            Err(e) => st.violation(if inplace { "C03" } else { "C02" }, &format!("clone of a valid archive with an old output / seeds failed: {}", e), &line),
        }
        let _ = kind; st.count(&format!("cbytes/{}/prior={}/inplace={}/seeds={}", if real_writer { "bita-writer" } else { "free-encoder" },
            if prior.is_empty() { "none" } else if prior == src { "identical" } else { "other" }, inplace, seeds.len()));
        if nchunks >= 3 { st.nontrivial_key(line.as_bytes()); }
        st.sample(format!("cbytes src={}B archive={}B prior={}B inplace={} seeds={:?} scanned-chunks={}", src.len(), bytes.len(), prior.len(), inplace, seeds.iter().map(|s| s.len()).collect::<Vec<_>>(), nchunks));
        out.push(&line, &aclone_impl(&r));
    }
    out.finish();
}

pub fn lib_clone(bytes: &[u8], seeds: &[Vec<u8>]) -> Result<Vec<u8>, String> {
    let bytes = bytes.to_vec();
    let seeds = seeds.to_vec();
    let r = std::panic::catch_unwind(move || {
        let rt = tokio::runtime::Builder::new_current_thread().enable_all().build().unwrap();
        rt.block_on(async move {
            match tokio::time::timeout(watchdog(10), clone_pipeline(IoReader::new(Cursor::new(bytes)), &seeds)).await {
                Ok(r) => r,
                Err(_) => { watchdog_hit(); Err("TIMEOUT".to_string()) }
            }
        })
    });
    r.unwrap_or_else(|_| Err("PANIC".to_string()))
}

pub fn http_clone(bytes: &[u8], script: Vec<SItem>, retries: u32) -> Result<Vec<u8>, String> {
    http_clone_log(bytes, script, retries).0
}

/// the clone over http and every Range request the server saw
pub fn http_clone_log(bytes: &[u8], script: Vec<SItem>, retries: u32) -> (Result<Vec<u8>, String>, Vec<(u64, u64)>) {
    let srv = ScriptServer::start(bytes.to_vec(), script);
    let url = srv.url();
    let r = std::panic::catch_unwind(move || {
        let rt = tokio::runtime::Builder::new_current_thread().enable_all().build().unwrap();
        rt.block_on(async move {
            let reader = HttpReader::from_url(url.parse().unwrap()).retries(retries).retry_delay(Duration::from_millis(0));
            match tokio::time::timeout(watchdog(10), clone_pipeline(reader, &[])).await { Ok(r) => r, Err(_) => { watchdog_hit(); Err("TIMEOUT".to_string()) } }
        })
    });
    let log = srv.finish();
    (r.unwrap_or_else(|_| Err("PANIC".to_string())), log)
}

/// Suite `httpclone` (C04, C08, C15): whole clones over http against a server that follows a script (answers,
/// refusals, cut / short bodies, extra bytes, wrong bytes) -- result and every Range request against
/// Model/CloneHttpModel.v
pub fn suite_httpclone(dir: &str, seed: u64, thorough: bool, st: &mut Stats) {
    let mut rng = Rng::new(seed ^ 0xa8);
    let mut out = SuiteOut::new(dir, "httpclone");
    let narch = if thorough { 60 } else { 8 };
    let per = if thorough { 40 } else { 25 };
    for _ in 0..narch {
        let cfg = crate::chunking::gen_cfg(&mut rng, true);
        let (src, _) = { let l = rng.range(0, 2500) as usize; gen_data(&mut rng, l) };
        let c = CompressCase { cfg, hashlen: rng.range(4, 64) as usize, comp: crate::archive::gen_comp(&mut rng), meta: Default::default(), src: src.clone() };
        let bytes = match run_create_archive(&c, 2, vec![]) { Ok(b) => b, Err(_) => continue };
        let al = match aclone_line(&bytes) { Some(a) => a, None => continue };
        for k in 0..per {
            let script: Vec<SItem> = if k == 0 { vec![] } else {
                (0..rng.range(1, 6)).map(|_| match rng.below(8) { 0 => SItem::Wrong, 1 => SItem::Short(rng.below(60) as usize), 2 => SItem::Extra(rng.range(1, 40) as usize), 3 => SItem::Cut(rng.below(80) as usize), 4 => SItem::Refuse, _ => SItem::Ok }).collect()
            };
            let retries = rng.below(4) as u32;
            let (r, log) = http_clone_log(&bytes, script.clone(), retries);
            st.evaluations += 1;
            st.oracle_checks += 1;
            let line = format!("httpclone {} {} {}", &al["aclone ".len()..], retries, crate::http::script_str(&script));
            match &r {
                Ok(got) if *got != src => st.violation("C04", "misbehaving server: clone reported success with different output", &line),
                Err(e) if e == "PANIC" || e == "TIMEOUT" => st.violation("C15", &format!("misbehaving server: clone ended with {}", e), &line),
                _ => {}
            }
            st.count(&format!("httpclone/{}/{}", if script.is_empty() { "honest" } else if script.iter().all(|i| matches!(i, SItem::Ok | SItem::Refuse | SItem::Cut(_))) { "failing-transfers" } else { "wrong-data" }, if r.is_ok() { "ok-identical" } else { "rejected" }));
            if log.len() >= 3 { st.nontrivial_key(line.as_bytes()); }
            if k < 2 { st.sample(format!("httpclone src={}B archive={}B retries={} script={} requests={}", src.len(), bytes.len(), retries, crate::http::script_str(&script), crate::http::log_str(&log))); }
            out.push(&line, &format!("{} | {}", aclone_impl(&r), crate::http::log_str(&log)));
        }
    }
    out.finish();
}


/// decompress with the same output bound as the implementation (source size)
fn brotli_decompress_limited(p: &[u8], limit: usize) -> Option<Vec<u8>> {
    struct Lim { buf: Vec<u8>, limit: usize }
    impl std::io::Write for Lim {
        fn write(&mut self, d: &[u8]) -> std::io::Result<usize> {
            if d.len() > self.limit - self.buf.len() { return Err(std::io::Error::new(std::io::ErrorKind::InvalidData, "too large")); }
            self.buf.extend_from_slice(d);
            Ok(d.len())
        }
        fn flush(&mut self) -> std::io::Result<()> { Ok(()) }
    }
    let mut out = Lim { buf: vec![], limit };
    let mut inp = p;
    brotli_decompressor::BrotliDecompress(&mut inp, &mut out).ok()?;
    Some(out.buf)
}

/// `aclone` model line for archive bytes whose header parses: hash and codec oracle tables for every
/// descriptor's stored range (as found in these bytes, tampered or not)
pub fn aclone_line(bytes: &[u8]) -> Option<String> {
    if bytes.len() < 14 { return None; }
    let ds = u64::from_le_bytes(bytes[6..14].try_into().unwrap()) as usize;
    let hl = 14usize.checked_add(ds)?.checked_add(72)?;
    if hl > bytes.len() { return None; }
    let d = crate::archive::parse_dict_lenient(&bytes[14..14 + ds])?;
    let off = u64::from_le_bytes(bytes[14 + ds..14 + ds + 8].try_into().unwrap());
    let mut tab = vec![];
    let mut seen = std::collections::HashSet::new();
    for x in &d.descs {
        let a = off.checked_add(x.archive_offset)? as usize;
        let e = a.checked_add(x.archive_size as usize)?;
        if e > bytes.len() { continue; }
        let p = &bytes[a..e];
        if !seen.insert(p.to_vec()) { continue; }
        let dec = match d.comp { Some([t, _]) if t != 0 => crate::archive::codec_decompress(t, p, x.source_size as usize), _ => None };
        tab.push(format!("{}={}={}={}", hex(p), hex(&b2(p)), match &dec { Some(v) => hex(v), None => "!".into() }, match &dec { Some(v) => hex(&b2(v)), None => "-".into() }));
    }
    Some(format!("aclone {} {} {}", hex(bytes), hex(&b2(&bytes[..14 + ds + 8])), if tab.is_empty() { "-".into() } else { tab.join(";") }))
}

pub fn aclone_impl(r: &Result<Vec<u8>, String>) -> String {
    match r { Ok(b) => format!("OK {}", hex(b)), Err(_) => "ERR".into() }
}

fn brotli(level: u32, d: &[u8]) -> Vec<u8> {
    bitar::Chunk::from(d.to_vec()).compress(Some(Compression::brotli(level).unwrap())).unwrap().data().to_vec()
}

/// a format-conforming archive of `src` written by the harness' own encoder with every freedom of the format
pub fn conforming_archive(rng: &mut Rng, src: &[u8]) -> (Vec<u8>, Dict) {
    // arbitrary chunk boundaries
    // (a quarter of the archives: chunks of one size, stored as they are, back to back -- in descending, ascending or
    // shuffled order; with equal stored sizes a chunk can lie exactly one chunk size BELOW the one before it)
    let equal = rng.chance(1, 4);
    let eq_len = rng.range(8, 300) as usize;
    let mut chunks: Vec<Vec<u8>> = vec![];
    let mut p = 0;
    while p < src.len() {
        let l = (if equal { eq_len } else { rng.range(1, 700) as usize }).min(src.len() - p);
        chunks.push(src[p..p + l].to_vec());
        p += l;
    }
    let hl = rng.range(4, 64) as usize;
    let ctype = *rng.pick(&[3u32, 3, 2, 1]);
    let level = rng.range(1, 6) as u32;
    let mut uniq: Vec<Vec<u8>> = vec![];
    let mut order: Vec<u32> = vec![];
    for c in &chunks {
        match uniq.iter().position(|u| u == c) {
            Some(i) => order.push(i as u32),
            None => { uniq.push(c.clone()); order.push(uniq.len() as u32 - 1); }
        }
    }
    // stored form per chunk
    let mut any_comp = false;
    let stored: Vec<Vec<u8>> = uniq.iter().map(|u| {
        if !equal && rng.chance(1, 2) { let c = crate::archive::codec_compress(ctype, level, u); if c.len() != u.len() { any_comp = true; c } else { u.clone() } } else { u.clone() }
    }).collect();
    // placement: permuted, with gaps
    let mut perm: Vec<usize> = (0..uniq.len()).collect();
    if equal && rng.chance(1, 2) { perm.reverse(); }
    else if rng.chance(2, 3) { for i in (1..perm.len()).rev() { let j = rng.below(i as u64 + 1) as usize; perm.swap(i, j); } }
    let mut data: Vec<u8> = vec![];
    let mut offs = vec![0u64; uniq.len()];
    for i in perm {
        let gap = if equal { 1 } else if rng.chance(1, 3) { 40 } else { 1 };
        for _ in 0..rng.below(gap) { data.push(rng.next() as u8); }
        offs[i] = data.len() as u64;
        data.extend_from_slice(&stored[i]);
    }
    for _ in 0..rng.below(20) { data.push(rng.next() as u8); }
    let algo = rng.below(3) as u32;
    let params = if algo == 2 { [0, 0, rng.range(1, 5000) as u32, 0, hl as u32, 2] } else {
        let win = rng.range(1, 64) as u32; let min = rng.below(200) as u32; let max = min.max(win) + rng.below(9000) as u32;
        [rng.range(1, 24) as u32, min, max, win, hl as u32, algo]
    };
    let mut meta = std::collections::BTreeMap::new();
    if rng.chance(1, 2) { meta.insert(b"note".to_vec(), b"conforming".to_vec()); }
    let d = Dict {
        version: b"9.9.9-other-writer".to_vec(),
        checksum: b2(src),
        total: src.len() as u64,
        params: Some(params),
        comp: Some(if any_comp || rng.chance(1, 3) { [ctype, level] } else { [0, 0] }),
        order,
        descs: uniq.iter().enumerate().map(|(i, u)| Desc { checksum: b2(u)[..hl].to_vec(), archive_size: stored[i].len() as u32, archive_offset: offs[i], source_size: u.len() as u32 }).collect(),
        meta,
    };
    let dict_bytes = d.encode_free(rng, true);
    let hlen = 14 + dict_bytes.len() as u64 + 72;
    let slack = if rng.chance(1, 2) { rng.below(64) } else { 0 };
    let mut bytes = make_header(&dict_bytes, rng.chance(1, 3), if slack == 0 && rng.chance(1, 2) { None } else { Some(hlen + slack) });
    for _ in 0..slack { bytes.push(rng.next() as u8); }
    bytes.extend_from_slice(&data);
    (bytes, d)
}

pub fn suite_conform(dir: &str, seed: u64, thorough: bool, st: &mut Stats) {
    let mut rng = Rng::new(seed ^ 0xa1);
    let mut out = SuiteOut::new(dir, "conform");
    let n = if thorough { 10000 } else { 300 };
    for i in 0..n {
        let len = match rng.below(8) { 0 => 0, 1 => 1, _ => rng.range(0, 6000) as usize };
        let (src, kind) = gen_data(&mut rng, len);
        let (bytes, d) = conforming_archive(&mut rng, &src);
        let line = format!("tryinit {} {}", hex(&bytes), { let ds = u64::from_le_bytes(bytes[6..14].try_into().unwrap()) as usize; hex(&b2(&bytes[..14 + ds + 8])) });
        st.evaluations += 1;
        st.oracle_checks += 2;
        st.count(&format!("conform/{}/chunks={}", kind, match d.descs.len() { 0 => "0", 1 => "1", _ => "2+" }));
        if d.descs.len() >= 2 { st.nontrivial_key(line.as_bytes()); }
        st.sample(format!("conform src={}B descs={} legacy={} dict={}", src.len(), d.descs.len(), bytes[0] == 0, d.text().chars().take(120).collect::<String>()));
        // opened and reported
        let rep = try_init_line(&bytes);
        if !rep.starts_with("OK") {
            st.violation("C17", &format!("a conforming archive is not opened: {}", rep), &line);
        } else {
            let hl = d.params.unwrap()[4];
            let want_total = format!(" total={} ", src.len());
            if !rep.contains(&want_total) || !rep.contains(&format!(" hl={} ", hl)) || !rep.contains(&format!(" sc={} ", hex(&b2(&src)))) {
                st.violation("C17", "a conforming archive is reported with other values than it encodes", &line);
            }
        }
        // cloned to exactly the source
        let cl = lib_clone(&bytes, &[]);
        match &cl {
            Ok(got) if *got == src => {}
            Ok(_) => st.violation("C17", "a conforming archive is cloned to something else than its source", &line),
            Err(e) => st.violation("C17", &format!("a conforming archive is not cloned: {}", e), &line),
        }
        if let Some(al) = aclone_line(&bytes) { out.push(&al, &aclone_impl(&cl)); }
        if i % 10 == 0 {
            match http_clone(&bytes, vec![], 0) {
                Ok(got) if got == src => {}
                _ => st.violation("C17", "a conforming archive is not cloned correctly over http", &line),
            }
        }
        out.push(&line, &rep);
    }
    out.finish();
}

pub fn suite_corrupt(dir: &str, seed: u64, thorough: bool, st: &mut Stats) {
    let mut rng = Rng::new(seed ^ 0xa2);
    let mut out = SuiteOut::new(dir, "corrupt");
    let model_lines: std::cell::RefCell<Vec<(String, String)>> = std::cell::RefCell::new(vec![]);
    let lines_emitted = std::cell::Cell::new(0usize);
    let narch = if thorough { 40 } else { 6 };
    for ai in 0..narch {
        let cfg = crate::chunking::gen_cfg(&mut rng, true);
        let (src, _) = { let l = rng.range(50, if ai == 0 { 250 } else { 3000 }) as usize; gen_data(&mut rng, l) };
        let c = CompressCase { cfg, hashlen: rng.range(8, 64) as usize, comp: crate::archive::gen_comp(&mut rng), meta: Default::default(), src: src.clone() };
        let bytes = match run_create_archive(&c, 2, vec![]) { Ok(b) => b, Err(_) => continue };
        let hlen = 14 + u64::from_le_bytes(bytes[6..14].try_into().unwrap()) as usize + 72;
        let seeds: Vec<Vec<u8>> = if rng.chance(1, 2) { vec![src[..src.len() / 2].to_vec()] } else { vec![] };
        let mut check = |m: &[u8], what: &str, in_header: bool, st: &mut Stats| {
            st.evaluations += 1;
            st.oracle_checks += 1;
            let r = lib_clone(m, &seeds);
            // model tie (without seeds): open + clone of the same bytes
            if !in_header && what != "truncation" && lines_emitted.get() < 400 {
                if let Some(al) = aclone_line(m) {
                    let r0 = if seeds.is_empty() { r.clone() } else { lib_clone(m, &[]) };
                    model_lines.borrow_mut().push((al, aclone_impl(&r0)));
                    lines_emitted.set(lines_emitted.get() + 1);
                }
            }
            let replay = format!("corrupt {} {} {}", what, hex(&src), hex(m));
            match &r {
                Ok(got) if *got != src => st.violation("C04", &format!("{}: clone reported success with different output", what), &replay),
                Ok(_) if in_header => st.violation("C04", &format!("{}: a change inside the header was not rejected", what), &replay),
                Err(e) if e == "PANIC" || e == "TIMEOUT" => st.violation("C15", &format!("{}: clone of a corrupted archive ended with {}", what, e), &replay),
                _ => {}
            }
            st.count(&format!("corrupt/{}/{}", what.split(':').next().unwrap(), if r.is_ok() { "ok-identical" } else { "rejected" }));
            if r.is_err() { st.nontrivial_key(replay.as_bytes()); }
        };
        // every single bit flip (exhaustive on the first, small archive; sampled on the others)
        let nbits = bytes.len() * 8;
        let flips: Vec<usize> = if ai == 0 { (0..nbits).collect() } else { (0..150).map(|_| rng.below(nbits as u64) as usize).collect() };
        for k in flips {
            let mut m = bytes.clone();
            m[k / 8] ^= 1 << (k % 8);
            check(&m, if k / 8 < hlen { "bitflip-header" } else { "bitflip-payload" }, k / 8 < hlen, st);
        }
        // every truncation length (first archive) / sampled
        let truncs: Vec<usize> = if ai == 0 { (0..bytes.len()).collect() } else { (0..40).map(|_| rng.below(bytes.len() as u64) as usize).collect() };
        for l in truncs { check(&bytes[..l], "truncation", false, st); }
        for _ in 0..30 {
            let mut m = bytes.clone();
            match rng.below(4) {
                0 => { // swap two payload regions
                    if m.len() > hlen + 8 { let a = rng.range(hlen as u64, m.len() as u64 - 5) as usize; let b = rng.range(hlen as u64, m.len() as u64 - 5) as usize; for j in 0..4 { m.swap(a + j, b + j); } }
                    check(&m, "payload-swap", false, st);
                }
                1 => { let a = rng.below(m.len() as u64) as usize; let e = (a + rng.range(1, 30) as usize).min(m.len()); for j in a..e { m[j] = rng.next() as u8; } check(&m, "overwrite", false, st); }
                2 => { for _ in 0..rng.range(1, 50) { m.push(rng.next() as u8); } check(&m, "trailing-garbage", false, st); }
                _ => { if m.len() > hlen + 2 { let a = rng.range(hlen as u64, m.len() as u64 - 1) as usize; m.remove(a); } check(&m, "payload-deletion", false, st); }
            }
        }
        // misbehaving servers
        for _ in 0..(if thorough { 30 } else { 12 }) {
            let script: Vec<SItem> = (0..rng.range(1, 5)).map(|_| match rng.below(6) { 0 => SItem::Wrong, 1 => SItem::Short(rng.below(40) as usize), 2 => SItem::Extra(rng.range(1, 40) as usize), 3 => SItem::Cut(rng.below(60) as usize), 4 => SItem::Refuse, _ => SItem::Ok }).collect();
            let r = http_clone(&bytes, script.clone(), rng.below(3) as u32);
            st.evaluations += 1;
            st.oracle_checks += 1;
            let replay = format!("corrupt-http {} {}", crate::http::script_str(&script), hex(&bytes));
            match &r {
                Ok(got) if *got != src => st.violation("C04", "misbehaving server: clone reported success with different output", &replay),
                Err(e) if e == "PANIC" || e == "TIMEOUT" => st.violation("C15", &format!("misbehaving server: clone ended with {}", e), &replay),
                _ => {}
            }
            st.count(&format!("corrupt/http/{}", if r.is_ok() { "ok-identical" } else { "rejected" }));
        }
        st.sample(format!("corrupt archive#{} {} src={}B archive={}B seeds={}", ai, c.cfg.line(), src.len(), bytes.len(), seeds.len()));
        lines_emitted.set(0);
    }
    for (c, i) in model_lines.borrow().iter() { out.push(c, i); }
    out.finish();
}

/// C15: everything done with an accepted (possibly hostile) archive ends in Ok/Err: index, chunker over a seed,
/// clone pipeline; run for the `tryinit` style inputs
pub fn suite_hostile(dir: &str, seed: u64, thorough: bool, st: &mut Stats) {
    let mut rng = Rng::new(seed ^ 0xa3);
    let out = SuiteOut::new(dir, "hostile");
    bomb_cases(st, thorough);
    let n = if thorough { 16000 } else { 500 };
    for i in 0..n {
        let mut d = gen_dict(&mut rng);
        // make most of them pass the validation so that the later phases are reached
        if i % 4 != 0 {
            let nd = d.descs.len();
            if let Some(p) = d.params.as_mut() { if p[5] > 2 { p[5] = 1; } if p[3] == 0 { p[3] = 1; } if p[2] < p[3] { p[2] = p[3]; } if p[1] > p[2] { p[1] = p[2]; } if p[0] == 0 || p[0] > 30 { p[0] = 3; } if p[2] > 1 << 20 { p[2] = 1 << 20; p[3] = p[3].min(64); p[1] = p[1].min(p[2]); } }
            if let Some(c) = d.comp.as_mut() { if c[0] != 0 && c[0] != 3 { c[0] = 3; } }
            d.order.retain(|x| (*x as usize) < nd);
        }
        let dict_bytes = d.encode_free(&mut rng, false);
        let mut bytes = make_header(&dict_bytes, false, None);
        for _ in 0..rng.below(300) { bytes.push(rng.next() as u8); }
        let seedv = vec![(0..64).map(|_| rng.next() as u8).collect::<Vec<u8>>()];
        let r = lib_clone(&bytes, &seedv);
        st.evaluations += 1;
        st.oracle_checks += 1;
        let replay = format!("hostile {}", hex(&bytes));
        st.count(&format!("hostile/{}", match &r { Ok(_) => "ok".to_string(), Err(e) => e.split(':').next().unwrap().to_string() }));
        if let Err(e) = &r { if e == "PANIC" || e == "TIMEOUT" || e == "unbounded" { st.violation("C15", &format!("clone of a hostile archive ended with {}", e), &replay); } }
        if matches!(&r, Err(e) if !e.starts_with("open")) { st.nontrivial_key(replay.as_bytes()); }
        st.sample(format!("hostile dict={}", d.text().chars().take(150).collect::<String>()));
    }
    out.finish();
}

fn vm_hwm_kib() -> u64 {
    std::fs::read_to_string("/proc/self/status").ok().and_then(|s| {
        s.lines().find(|l| l.starts_with("VmHWM:")).and_then(|l| l.split_whitespace().nth(1).and_then(|x| x.parse().ok()))
    }).unwrap_or(0)
}

/// C15: a tiny payload that decompresses to far more than the declared chunk size must be rejected without
/// buffering the expansion (peak memory of this process is the observable)
pub fn bomb_case(st: &mut Stats) { bomb_cases(st, false); }

/// decompression bombs: a small payload of every codec that expands to 192 MiB, stored for a chunk whose declared
/// size is below / above the decoders' output block sizes; each cloned in a child process (peak memory)
pub fn bomb_cases(st: &mut Stats, thorough: bool) {
    let big = vec![0u8; 192 << 20];
    let payloads: Vec<(u32, Vec<u8>)> = [3u32, 2, 1].iter().map(|t| (*t, crate::archive::codec_compress(*t, 1, &big))).collect();
    drop(big);
    let declared: &[u32] = if thorough { &[100, 5000, 65536, 1 << 20, 8 << 20] } else { &[100, 65536, 1 << 20] };
    for (t, payload) in &payloads {
        for &decl in declared {
            let fake_src = vec![7u8; decl as usize];
            let d = Dict {
                version: b"x".to_vec(), checksum: b2(&fake_src), total: decl as u64,
                params: Some([0, 0, decl, 0, 64, 2]), comp: Some([*t, 1]), order: vec![0],
                descs: vec![Desc { checksum: b2(&fake_src), archive_size: payload.len() as u32, archive_offset: 0, source_size: decl }],
                meta: Default::default(),
            };
            let mut rng = Rng::new(1);
            let mut bytes = make_header(&d.encode_free(&mut rng, false), false, None);
            bytes.extend_from_slice(payload);
            // run in a child process so that the peak memory is that of the clone alone
            let dir = std::env::var("VERIF_SCRATCH").unwrap_or_else(|_| "/verif/build/scratch".to_string());
            let _ = std::fs::create_dir_all(&dir);
            let path = format!("{}/bomb-{}-{}-{}.cba", dir, std::process::id(), t, decl);
            std::fs::write(&path, &bytes).unwrap();
            drop(bytes);
            let out = std::process::Command::new(std::env::current_exe().unwrap()).args(["bombchild", &path]).output();
            let _ = std::fs::remove_file(&path);
            st.evaluations += 1;
            st.oracle_checks += 1;
            st.count(&format!("hostile/decompression-bomb/codec={}/declared={}", t, decl));
            let text = out.map(|o| String::from_utf8_lossy(&o.stdout).to_string()).unwrap_or_default();
            let mut ok = false;
            let mut hwm = 0u64;
            for l in text.lines() {
                if let Some(v) = l.strip_prefix("BOMB-RESULT ") { ok = v.starts_with("ok"); }
                if let Some(v) = l.strip_prefix("BOMB-HWM-KIB ") { hwm = v.trim().parse().unwrap_or(0); }
            }
            if ok { st.violation("C04", "a decompression bomb was cloned successfully", "bomb"); }
            // payload + declared size + decoder state, far below the 192 MiB the payload expands to
            let bound = 64 * 1024 + 2 * (decl as u64 / 1024) + 2 * (payload.len() as u64 / 1024);
            if hwm == 0 || hwm > bound {
                st.violation("C15", &format!("a {} byte payload (codec {}) declared as a {} byte chunk made the process use {} MiB (child output: {:?})", payload.len(), t, decl, hwm / 1024, text.lines().last()), "bomb");
            }
        }
    }
}

pub fn bomb_child(path: &str) {
    let bytes = std::fs::read(path).unwrap();
    let r = lib_clone(&bytes, &[]);
    println!("BOMB-RESULT {}", if r.is_ok() { "ok".to_string() } else { format!("err {}", r.unwrap_err()) });
    println!("BOMB-HWM-KIB {}", vm_hwm_kib());
}

pub fn replay(line: &str) -> Result<(), String> {
    let t: Vec<&str> = line.split(' ').collect();
    match t[0] {
        "bomb" => { let mut st = Stats::default(); bomb_case(&mut st); match st.violations.first() { Some(v) => Err(v.1.clone()), None => Ok(()) } }
        "corrupt" => {
            let src = unhex(t[2]);
            match lib_clone(&unhex(t[3]), &[]) {
                Ok(got) if got != src => Err("clone reported success with different output".into()),
                Ok(_) if t[1] == "bitflip-header" => Err("a change inside the header was not rejected".into()),
                Err(e) if e == "PANIC" || e == "TIMEOUT" => Err(e),
                _ => Ok(()),
            }
        }
        "hostile" => match lib_clone(&unhex(t[1]), &[vec![7u8; 64]]) { Err(e) if e == "PANIC" || e == "TIMEOUT" || e == "unbounded" => Err(e), _ => Ok(()) },
        _ => Err("unknown".into()),
    }
}
