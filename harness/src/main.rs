//! Correspondence harness for the bita verification: generates cases, runs the implementation built
//! from /repo's working tree, writes model inputs + implementation outputs + statistics + oracle findings.
mod archive;
mod chunking;
mod cli;
mod clone;
mod http;
mod pb;
mod tamper;
mod memfile;
mod util;

use util::Stats;

fn main() {
    let args: Vec<String> = std::env::args().collect();
    if args.len() < 2 {
        eprintln!("usage: harness <suite> [--tier quick|thorough] [--seed N] [--out DIR] | harness replay <line>");
        std::process::exit(2);
    }
    util::silent_panics();
    let suite = args[1].clone();
    if suite == "bombchild" {
        tamper::bomb_child(&args[2]);
        return;
    }
    if suite == "replay" {
        let line = args[2..].join(" ");
        let r = match line.split(' ').next().unwrap_or("") {
            "stream" | "stream2" | "resync" | "hash" | "f6" => chunking::replay(&line),
            "planner" | "clone" => clone::replay(&line),
            "protodec" | "tryinit" | "compress" => archive::replay(&line),
            "http" => http::replay(&line),
            "corrupt" | "hostile" | "bomb" => tamper::replay(&line),
            k => Err(format!("unknown replay kind {}", k)),
        };
        match r {
            Ok(()) => println!("REPLAY-OK"),
            Err(e) => {
                println!("REPLAY-FAIL {}", e);
                std::process::exit(1);
            }
        }
        return;
    }
    let mut tier = "quick".to_string();
    let mut seed = 1u64;
    let mut out = "/verif/build/cases".to_string();
    let mut i = 2;
    while i < args.len() {
        match args[i].as_str() {
            "--tier" => { tier = args[i + 1].clone(); i += 2; }
            "--seed" => { seed = args[i + 1].parse().unwrap_or(1); i += 2; }
            "--out" => { out = args[i + 1].clone(); i += 2; }
            _ => { i += 1; }
        }
    }
    let thorough = tier == "thorough";
    let mut st = Stats::default();
    match suite.as_str() {
        "hash" => chunking::suite_hash(&out, seed, thorough, &mut st),
        "stream" => chunking::suite_stream(&out, seed, thorough, &mut st),
        "oneshot" => chunking::suite_oneshot(&out, seed, thorough, &mut st),
        "exh" => chunking::suite_exhaustive(&out, seed, thorough, &mut st),
        "resync" => chunking::suite_resync(&out, seed, thorough, &mut st),
        "planner" => clone::suite_planner(&out, seed, thorough, &mut st),
        "protoenc" => archive::suite_protoenc(&out, seed, thorough, &mut st),
        "protodec" => archive::suite_protodec(&out, seed, thorough, &mut st),
        "tryinit" => archive::suite_tryinit(&out, seed, thorough, &mut st),
        "compress" => archive::suite_compress(&out, seed, thorough, &mut st),
        "http" => http::suite_http(&out, seed, thorough, &mut st),
        "conform" => tamper::suite_conform(&out, seed, thorough, &mut st),
        "corrupt" => tamper::suite_corrupt(&out, seed, thorough, &mut st),
        "cbytes" => tamper::suite_cbytes(&out, seed, thorough, &mut st),
        "httpclone" => tamper::suite_httpclone(&out, seed, thorough, &mut st),
        "hostile" => tamper::suite_hostile(&out, seed, thorough, &mut st),
        "clirt" => cli::suite_clirt(&out, seed, thorough, &mut st),
        "cliclone" => cli::suite_cliclone(&out, seed, thorough, &mut st),
        "clirefuse" => cli::suite_clirefuse(&out, seed, thorough, &mut st),
        "clicorrupt" => cli::suite_clicorrupt(&out, seed, thorough, &mut st),
        "cliwrites" => cli::suite_cliwrites(&out, seed, thorough, &mut st),
        "clihuge" => cli::suite_clihuge(&out, seed, thorough, &mut st),
        "clitrace" => cli::suite_clitrace(&out, seed, thorough, &mut st),
        "clifault" => cli::suite_clifault(&out, seed, thorough, &mut st),
        "ioread" => http::suite_ioread(&out, seed, thorough, &mut st),
        "clone" => clone::suite_clone(&out, seed, thorough, &mut st),
        "hashkey" => clone::suite_hashkey(&out, seed, thorough, &mut st),
        _ => {
            eprintln!("unknown suite {}", suite);
            std::process::exit(2);
        }
    }
    st.write(&out, &suite);
    println!("suite {} evaluations {} violations {}", suite, st.evaluations, st.violations.len());
}
