//! In-memory output implementing AsyncRead + AsyncWrite + AsyncSeek with a recorded trace and an
//! optional injected write fault (the k-th write stores t bytes and then fails).
use std::io::{self, SeekFrom};
use std::pin::Pin;
use std::task::{Context, Poll};
use tokio::io::{AsyncRead, AsyncSeek, AsyncWrite, ReadBuf};

#[derive(Clone, Debug, PartialEq, Eq)]
pub enum Tev {
    Seek(u64),
    Write(u64, Vec<u8>), // (offset, bytes that reached the file)
    Read(usize),
}

pub struct MemFile {
    pub data: Vec<u8>,
    pub pos: u64,
    pub trace: Vec<Tev>,
    pub nwrites: u64,
    pub fault: Option<(u64, usize)>,
    pub failing: bool,
    /// every write call accepts at most this many bytes (like a tokio file: 2 MiB; a socket: whatever fits): the rest
    /// has to be offered again by the caller
    pub short: Option<usize>,
    /// the vector holds the file from this offset on; everything below is virtual (reads give zeros) and every
    /// access there is recorded: used to place a small scenario beyond 2^32 without materialising what lies before it
    pub base: u64,
    pub low_touch: Vec<u64>,
    read_end: u64,
    seek_result: u64,
}

impl MemFile {
    pub fn new(data: Vec<u8>, fault: Option<(u64, usize)>) -> Self {
        Self { data, pos: 0, trace: vec![], nwrites: 0, fault, failing: false, short: None, base: 0, low_touch: vec![], read_end: u64::MAX, seek_result: 0 }
    }
    fn store(&mut self, buf: &[u8]) {
        if self.pos < self.base {
            self.low_touch.push(self.pos);
            self.trace.push(Tev::Write(self.pos, buf.to_vec()));
            self.pos += buf.len() as u64;
            return;
        }
        let off = (self.pos - self.base) as usize;
        if self.data.len() < off {
            self.data.resize(off, 0);
        }
        let end = off + buf.len();
        if self.data.len() < end {
            self.data.resize(end, 0);
        }
        self.data[off..end].copy_from_slice(buf);
        // the pieces of one logical write (short writes completed by the caller) are recorded as one write
        let merged = match (self.short, self.trace.last_mut()) {
            (Some(_), Some(Tev::Write(o, d))) if *o + d.len() as u64 == self.pos => { d.extend_from_slice(buf); true }
            _ => false,
        };
        if !merged { self.trace.push(Tev::Write(self.pos, buf.to_vec())); }
        self.pos = self.base + end as u64;
    }
    pub fn trace_str(&self) -> String {
        if self.trace.is_empty() {
            return "-".into();
        }
        self.trace
            .iter()
            .map(|e| match e {
                Tev::Seek(o) => format!("s{}", o),
                Tev::Write(_, d) => format!("w{}", crate::util::hex(d)),
                Tev::Read(n) => format!("r{}", n),
            })
            .collect::<Vec<_>>()
            .join(",")
    }
}

impl AsyncRead for MemFile {
    fn poll_read(mut self: Pin<&mut Self>, _cx: &mut Context<'_>, buf: &mut ReadBuf<'_>) -> Poll<io::Result<()>> {
        let me = &mut *self;
        if me.pos < me.base {
            me.low_touch.push(me.pos);
            let k = buf.remaining().min((me.base - me.pos).min(1 << 20) as usize);
            buf.put_slice(&vec![0u8; k]);
            me.pos += k as u64;
            me.trace.push(Tev::Read(k));
            return Poll::Ready(Ok(()));
        }
        let off = ((me.pos - me.base) as usize).min(me.data.len());
        let mut k = buf.remaining().min(me.data.len() - off);
        // (in the short mode a read also delivers only a few bytes per call, as a tokio file does beyond 2 MiB; the pieces
        // of one logical read are recorded as one read)
        if let Some(s) = me.short { k = k.min(s.max(1)); }
        if k > 0 {
            buf.put_slice(&me.data[off..off + k]);
            let merged = match (me.short, me.trace.last_mut()) {
                (Some(_), Some(Tev::Read(n))) if me.read_end == me.pos => { *n += k; true }
                _ => false,
            };
            me.pos += k as u64;
            me.read_end = me.pos;
            if !merged { me.trace.push(Tev::Read(k)); }
        }
        Poll::Ready(Ok(()))
    }
}

impl AsyncWrite for MemFile {
    fn poll_write(mut self: Pin<&mut Self>, _cx: &mut Context<'_>, buf: &[u8]) -> Poll<io::Result<usize>> {
        let me = &mut *self;
        if me.failing {
            return Poll::Ready(Err(io::Error::new(io::ErrorKind::Other, "injected write failure")));
        }
        if let Some((k, t)) = me.fault {
            if me.nwrites == k {
                me.nwrites += 1;
                me.failing = true;
                let t = t.min(buf.len());
                if t == 0 {
                    return Poll::Ready(Err(io::Error::new(io::ErrorKind::Other, "injected write failure")));
                }
                let part = buf[..t].to_vec();
                me.store(&part);
                if t == buf.len() {
                    // everything reached the file, the failure is still reported
                    return Poll::Ready(Err(io::Error::new(io::ErrorKind::Other, "injected write failure")));
                }
                return Poll::Ready(Ok(t));
            }
        }
        if let Some(k) = me.short {
            let k = k.max(1).min(buf.len());
            // (the write counter counts logical writes: the first piece of each)
            let cont = matches!(me.trace.last(), Some(Tev::Write(o, d)) if *o + d.len() as u64 == me.pos);
            if !cont { me.nwrites += 1; }
            let part = buf[..k].to_vec();
            me.store(&part);
            return Poll::Ready(Ok(k));
        }
        me.nwrites += 1;
        me.store(buf);
        Poll::Ready(Ok(buf.len()))
    }
    fn poll_flush(self: Pin<&mut Self>, _cx: &mut Context<'_>) -> Poll<io::Result<()>> {
        Poll::Ready(Ok(()))
    }
    fn poll_shutdown(self: Pin<&mut Self>, _cx: &mut Context<'_>) -> Poll<io::Result<()>> {
        Poll::Ready(Ok(()))
    }
}

impl AsyncSeek for MemFile {
    fn start_seek(mut self: Pin<&mut Self>, position: SeekFrom) -> io::Result<()> {
        let me = &mut *self;
        let np = match position {
            SeekFrom::Start(o) => o as i64,
            SeekFrom::End(d) => me.base as i64 + me.data.len() as i64 + d,
            SeekFrom::Current(d) => me.pos as i64 + d,
        };
        if np < 0 {
            return Err(io::Error::new(io::ErrorKind::InvalidInput, "negative seek"));
        }
        me.pos = np as u64;
        me.seek_result = me.pos;
        me.trace.push(Tev::Seek(me.pos));
        Ok(())
    }
    fn poll_complete(self: Pin<&mut Self>, _cx: &mut Context<'_>) -> Poll<io::Result<u64>> {
        Poll::Ready(Ok(self.seek_result))
    }
}
