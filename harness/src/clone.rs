//! Suites `planner` and `clone`: ChunkIndex::{strip_chunks_already_in_place, reorder_ops} and
//! CloneOutput::{feed, reorder_in_place} on an instrumented in-memory output, against the model; plus the
//! implementation-side oracles for C02, C03, C05, C06, C13.
use crate::memfile::*;
use crate::util::*;
use bitar::{Chunk, ChunkIndex, CloneOutput, HashSum, ReorderOp, VerifiedChunk};
use futures_util::StreamExt;
use std::collections::{BTreeMap, HashMap, HashSet};

/// chunk identities: id -> data; hash = blake2 of data (through the public API)
pub struct Universe {
    pub datas: Vec<Vec<u8>>,
    pub hashes: Vec<HashSum>,
    pub by_data: HashMap<Vec<u8>, usize>,
}

impl Universe {
    pub fn new() -> Self {
        Self { datas: vec![], hashes: vec![], by_data: HashMap::new() }
    }
    pub fn id_of(&mut self, data: &[u8]) -> usize {
        if let Some(i) = self.by_data.get(data) {
            return *i;
        }
        let v = Chunk::from(data.to_vec()).verify();
        self.datas.push(data.to_vec());
        self.hashes.push(v.hash().clone());
        self.by_data.insert(data.to_vec(), self.datas.len() - 1);
        self.datas.len() - 1
    }
    pub fn id_of_hash(&self, h: &HashSum) -> Option<usize> {
        let s = h.slice();
        self.hashes.iter().position(|x| &x.slice()[..s.len().min(x.len())] == s)
    }
    pub fn verified(&self, id: usize) -> VerifiedChunk {
        Chunk::from(self.datas[id].clone()).verify()
    }
}

/// index in insertion order: (id, size, offsets)
pub type Idx = Vec<(usize, usize, Vec<u64>)>;

pub fn idx_of_seq(u: &Universe, seq: &[usize]) -> Idx {
    let mut idx: Idx = vec![];
    let mut off = 0u64;
    for id in seq {
        let size = u.datas[*id].len();
        match idx.iter_mut().find(|e| e.0 == *id) {
            Some(e) => e.2.push(off),
            None => idx.push((*id, size, vec![off])),
        }
        off += size as u64;
    }
    idx
}

pub fn build_index(u: &Universe, idx: &Idx, hl: usize) -> ChunkIndex {
    let mut ci = ChunkIndex::new_empty(hl);
    for (id, size, offs) in idx {
        ci.add_chunk(u.hashes[*id].clone(), *size, offs);
    }
    ci
}

pub fn idx_str(idx: &Idx) -> String {
    if idx.is_empty() {
        return "-".into();
    }
    idx.iter()
        .map(|(k, s, o)| format!("{}:{}:{}", k, s, o.iter().map(|x| x.to_string()).collect::<Vec<_>>().join(",")))
        .collect::<Vec<_>>()
        .join(";")
}

pub fn parse_idx(s: &str) -> Idx {
    if s == "-" {
        return vec![];
    }
    s.split(';')
        .map(|e| {
            let p: Vec<&str> = e.split(':').collect();
            (p[0].parse().unwrap(), p[1].parse().unwrap(),
             if p[2].is_empty() { vec![] } else { p[2].split(',').map(|x| x.parse().unwrap()).collect() })
        })
        .collect()
}

/// canonical (sorted by id) rendering of a real ChunkIndex
pub fn ci_str(u: &Universe, ci: &ChunkIndex) -> String {
    let mut m: BTreeMap<usize, (usize, Vec<u64>)> = BTreeMap::new();
    for (h, loc) in ci.iter_chunks() {
        let id = u.id_of_hash(h).unwrap_or(9999);
        m.insert(id, (loc.size(), loc.offsets().to_vec()));
    }
    if m.is_empty() {
        return "-".into();
    }
    m.iter()
        .map(|(k, (s, o))| format!("{}:{}:{}", k, s, o.iter().map(|x| x.to_string()).collect::<Vec<_>>().join(",")))
        .collect::<Vec<_>>()
        .join(";")
}

pub fn ops_str(u: &Universe, ops: &[ReorderOp]) -> String {
    if ops.is_empty() {
        return "-".into();
    }
    ops.iter()
        .map(|op| match op {
            ReorderOp::Copy { hash, size, source, dest } => format!(
                "C{}:{}:{}:{}",
                u.id_of_hash(hash).unwrap_or(9999), size, source,
                dest.iter().map(|x| x.to_string()).collect::<Vec<_>>().join(",")
            ),
            ReorderOp::StoreInMem { hash, size, source } => format!("M{}:{}:{}", u.id_of_hash(hash).unwrap_or(9999), size, source),
        })
        .collect::<Vec<_>>()
        .join(" ")
}

// ---------------------------------------------------------------------------------------------
// planner suite

/// simulate the ops on bytes (the executor's semantics) and check that every chunk of cur ∩ tgt ends up at
/// all its (stripped) target offsets
fn planner_oracle(u: &Universe, cur_seq: &[usize], stripped: &ChunkIndex, ops: &[ReorderOp]) -> Result<(), String> {
    let mut file: Vec<u8> = cur_seq.iter().flat_map(|id| u.datas[*id].clone()).collect();
    let mut store: HashMap<usize, Vec<u8>> = HashMap::new();
    let mut copied: HashSet<usize> = HashSet::new();
    for op in ops {
        match op {
            ReorderOp::Copy { hash, size, source, dest } => {
                let id = u.id_of_hash(hash).ok_or("unknown hash in op")?;
                let d = match store.remove(&id) {
                    Some(d) => d,
                    None => {
                        let s = *source as usize;
                        if s + size > file.len() { return Err(format!("Copy reads beyond the file: {}+{}", s, size)); }
                        file[s..s + size].to_vec()
                    }
                };
                if d != u.datas[id] {
                    return Err(format!("chunk {} was destroyed before it was copied or buffered (Copy source {} holds other bytes)", id, source));
                }
                for o in dest {
                    let o = *o as usize;
                    if file.len() < o + d.len() { file.resize(o + d.len(), 0); }
                    file[o..o + d.len()].copy_from_slice(&d);
                }
                if !copied.insert(id) {
                    return Err(format!("chunk {} copied twice", id));
                }
            }
            ReorderOp::StoreInMem { hash, size, source } => {
                let id = u.id_of_hash(hash).ok_or("unknown hash in op")?;
                if !store.contains_key(&id) {
                    let s = *source as usize;
                    if s + size > file.len() { return Err("StoreInMem reads beyond the file".into()); }
                    store.insert(id, file[s..s + size].to_vec());
                }
            }
        }
    }
    // every chunk present in cur and in the stripped target must now be at all its target offsets
    let cur_ids: HashSet<usize> = cur_seq.iter().copied().collect();
    for (h, loc) in stripped.iter_chunks() {
        let id = u.id_of_hash(h).ok_or("unknown hash")?;
        if !cur_ids.contains(&id) { continue; }
        if !copied.contains(&id) { return Err(format!("chunk {} is in both indexes but has no Copy", id)); }
        for o in loc.offsets() {
            let o = *o as usize;
            if file.len() < o + loc.size() || file[o..o + loc.size()] != u.datas[id][..] {
                return Err(format!("after the ops, target offset {} does not hold chunk {}", o, id));
            }
        }
    }
    Ok(())
}

fn planner_case(u: &Universe, cur_seq: &[usize], tgt_seq: &[usize], hl: usize, out: &mut SuiteOut, st: &mut Stats) {
    planner_case2(u, cur_seq, tgt_seq, hl, out, None, st)
}

fn planner_case2(u: &Universe, cur_seq: &[usize], tgt_seq: &[usize], hl: usize, out: &mut SuiteOut, iter_out: Option<&mut SuiteOut>, st: &mut Stats) {
    let cur = idx_of_seq(u, cur_seq);
    let tgt = idx_of_seq(u, tgt_seq);
    let line = format!("planner {} {}", idx_str(&cur), idx_str(&tgt));
    let cur_ci = build_index(u, &cur, hl);
    let mut tgt_ci = build_index(u, &tgt, hl);
    let r = std::panic::catch_unwind(std::panic::AssertUnwindSafe(|| {
        let (n, total) = cur_ci.strip_chunks_already_in_place(&mut tgt_ci);
        let ops = cur_ci.reorder_ops(&tgt_ci);
        let s = format!("OK {} {} | {} | {}", n, total, ci_str(u, &tgt_ci), ops_str(u, &ops));
        let orc = planner_oracle(u, cur_seq, &tgt_ci, &ops);
        (s, orc, ops.len())
    }));
    st.evaluations += 1;
    match r {
        Ok((s, orc, nops)) => {
            st.oracle_checks += 1;
            if let Err(what) = orc {
                st.violation("C03", &what, &line);
            }
            if nops >= 2 {
                st.nontrivial_key(line.as_bytes());
            }
            st.count(&format!("planner/ops/{}", match nops { 0 => "0", 1 => "1", 2..=4 => "2-4", _ => "5+" }));
            st.sample(line.clone());
            out.push(&line, &s);
            if let Some(io) = iter_out { io.push(&line.replacen("planner ", "planneriter ", 1), &s); }
        }
        Err(_) => {
            st.violation("C03", "planner panicked", &line);
            out.push(&line, "PANIC");
        }
    }
}

/// the same pair of layouts with every size and offset multiplied by `k` (offsets far beyond 2^32; sizes stay below 2^32
/// as the format requires): only the indexes exist, the planner never looks at data.  Compared with the model planner.
fn planner_case_scaled(u: &Universe, cur_seq: &[usize], tgt_seq: &[usize], hl: usize, k: u64, out: &mut SuiteOut, st: &mut Stats) {
    let scale = |idx: Idx| -> Idx { idx.into_iter().map(|(id, s, o)| (id, s * k as usize, o.into_iter().map(|x| x * k).collect())).collect() };
    let cur = scale(idx_of_seq(u, cur_seq));
    let tgt = scale(idx_of_seq(u, tgt_seq));
    let line = format!("planner {} {}", idx_str(&cur), idx_str(&tgt));
    let cur_ci = build_index(u, &cur, hl);
    let mut tgt_ci = build_index(u, &tgt, hl);
    let r = std::panic::catch_unwind(std::panic::AssertUnwindSafe(|| {
        let (n, total) = cur_ci.strip_chunks_already_in_place(&mut tgt_ci);
        let ops = cur_ci.reorder_ops(&tgt_ci);
        format!("OK {} {} | {} | {}", n, total, ci_str(u, &tgt_ci), ops_str(u, &ops))
    }));
    st.evaluations += 1;
    st.count("planner/scaled-beyond-2^32");
    match r {
        Ok(s) => out.push(&line, &s),
        Err(_) => { st.violation("C03", "planner panicked on layouts beyond 2^32", &line); out.push(&line, "PANIC"); }
    }
}

fn small_universe(sizes: &[usize]) -> Universe {
    let mut u = Universe::new();
    for (i, s) in sizes.iter().enumerate() {
        let d: Vec<u8> = (0..*s).map(|j| (b'a' + i as u8) ^ ((j as u8) << 5)).collect();
        u.id_of(&d);
    }
    u
}

pub fn suite_planner(dir: &str, seed: u64, thorough: bool, st: &mut Stats) {
    let mut out = SuiteOut::new(dir, "planner");
    let mut iter_out = SuiteOut::new(dir, "planner-iter");
    let mut rng = Rng::new(seed ^ 0x55);
    // exhaustive small scope: all pairs of tiled layouts of <= L chunks over 3 identities
    let l = if thorough { 5 } else { 4 };
    let size_sets: Vec<Vec<usize>> = if thorough {
        vec![vec![1, 1, 1], vec![1, 2, 3], vec![2, 1, 2], vec![3, 2, 1], vec![2, 3, 3]]
    } else {
        vec![vec![1, 2, 3], vec![2, 1, 2]]
    };
    let mut seqs: Vec<Vec<usize>> = vec![vec![]];
    let mut frontier: Vec<Vec<usize>> = vec![vec![]];
    for _ in 0..l {
        let mut next = vec![];
        for s in &frontier {
            for id in 0..3 {
                let mut t = s.clone();
                t.push(id);
                next.push(t);
            }
        }
        seqs.extend(next.iter().cloned());
        frontier = next;
    }
    for sizes in &size_sets {
        let u = small_universe(sizes);
        for a in &seqs {
            for b in &seqs {
                planner_case(&u, a, b, 64, &mut out, st);
            }
        }
    }
    st.count(&format!("planner/exhaustive-pairs/len<={}", l));
    // random larger layouts
    let n = if thorough { 30000 } else { 600 };
    for _ in 0..n {
        let k = rng.range(1, 9) as usize;
        let sizes: Vec<usize> = (0..k).map(|_| rng.range(1, 6) as usize).collect();
        let u = small_universe(&sizes);
        let la = rng.range(0, 14) as usize;
        let lb = rng.range(0, 14) as usize;
        let a: Vec<usize> = (0..la).map(|_| rng.below(k as u64) as usize).collect();
        let b: Vec<usize> = (0..lb).map(|_| rng.below(k as u64) as usize).collect();
        let hl = *rng.pick(&[4usize, 8, 16, 64]);
        planner_case2(&u, &a, &b, hl, &mut out, Some(&mut iter_out), st);
        if rng.chance(1, 4) { planner_case_scaled(&u, &a, &b, hl, *rng.pick(&[(1u64 << 29) + 1, 1 << 28, 805_306_367]), &mut out, st); }
    }
    out.finish();
    iter_out.finish();
}

/// ChunkIndex keyed by (truncated) HashSum bytes: add/contains/remove with crafted hashes of various lengths
pub fn suite_hashkey(dir: &str, seed: u64, thorough: bool, st: &mut Stats) {
    let mut out = SuiteOut::new(dir, "hashkey");
    let mut rng = Rng::new(seed ^ 0x56);
    let n = if thorough { 20000 } else { 600 };
    for _ in 0..n {
        let l = *rng.pick(&[0usize, 1, 4, 8, 16, 64, 70]);
        // a small pool of hashes with shared prefixes and different lengths (all >= l unless l is large)
        let base: Vec<u8> = (0..72).map(|_| rng.next() as u8).collect();
        let pool: Vec<Vec<u8>> = (0..6).map(|i| {
            // mostly at least as long as the index' hash length; sometimes SHORTER (a hash of an archive with a shorter hash
            // length offered to this index: a proper prefix of a key must not be taken for the key)
            let len = if rng.chance(1, 4) { *rng.pick(&[4usize, 5, 8, 12, 20]) } else { *rng.pick(&[4usize, 8, 20, 64, 72]).max(&l.min(64)) };
            let mut h = base[..len].to_vec();
            if i % 2 == 1 { let p = rng.below(len as u64) as usize; h[p] ^= 1 << rng.below(8); }
            h
        }).collect();
        let mut idx = ChunkIndex::new_empty(l);
        let mut ops = vec![];
        let mut res = String::new();
        for _ in 0..rng.range(1, 10) {
            let h = rng.pick(&pool).clone();
            // keys of one index all have the same effective length (as in any index the tool builds: truncated digests);
            // `add_chunk` goes through `HashMap::entry` with `HashSum`'s prefix equality and full-slice hash, so what
            // it does with a key that is a proper prefix of another one depends on the map's random hash seed.
            // Shorter hashes are therefore only used as probes (contains / remove compare exact truncated bytes).
            let op = rng.below(3);
            let op = if op == 0 && h.len() < l.min(64) { 1 } else { op };
            match op {
                0 => {
                    let size = rng.range(1, 50) as usize;
                    let offs: Vec<u64> = (0..rng.range(1, 3)).map(|_| rng.below(100)).collect();
                    idx.add_chunk(HashSum::from(&h[..]), size, &offs);
                    ops.push(format!("a{}:{}:{}", hex(&h), size, offs.iter().map(|x| x.to_string()).collect::<Vec<_>>().join(",")));
                }
                1 => { res.push(if idx.contains(&HashSum::from(&h[..])) { '1' } else { '0' }); ops.push(format!("c{}", hex(&h))); }
                _ => {
                    match idx.remove(&HashSum::from(&h[..])) {
                        Some(loc) => res.push_str(&format!("[{}:{}]", loc.size(), loc.offsets().iter().map(|x| x.to_string()).collect::<Vec<_>>().join(","))),
                        None => res.push_str("[-]"),
                    }
                    ops.push(format!("r{}", hex(&h)));
                }
            }
        }
        let mut entries: Vec<String> = idx.iter_chunks().map(|(k, loc)| format!("{}:{}:{}", hex(k.slice()), loc.size(), loc.offsets().iter().map(|x| x.to_string()).collect::<Vec<_>>().join(","))).collect();
        entries.sort();
        let line = format!("hashkey {} {}", l, ops.join("/"));
        st.evaluations += 1;
        st.count(&format!("hashkey/L={}", l));
        if ops.len() >= 3 { st.nontrivial_key(line.as_bytes()); }
        st.sample(line.clone());
        out.push(&line, &format!("OK {} | {}", res, if entries.is_empty() { "-".to_string() } else { entries.join(";") }));
    }
    out.finish();
}

// ---------------------------------------------------------------------------------------------
// clone suite

pub struct Scenario {
    pub u: Universe,
    pub source: Vec<u8>,
    pub prior: Vec<u8>,
    pub clone_idx: Idx,          // index of the source (archive order of first occurrence)
    pub out_idx: Option<Idx>,    // scan of the prior output (None: not in place)
    pub seeds: Vec<usize>,       // chunks offered by seeds, in order
    pub hl: usize,
    pub kind: &'static str,
}

pub struct RunResult {
    pub status: String,          // OK / ERR
    pub moved: u64,
    pub fed: Vec<usize>,
    pub file: Vec<u8>,
    pub trace: Vec<Tev>,
    pub trace_s: String,
    pub idx: String,
    pub remaining: Vec<usize>,
    pub nwrites: u64,
}

/// the feeds after reorder: seeds, then every chunk still missing in archive order (like clone_from_archive)
pub static SHORT_WRITES: std::sync::atomic::AtomicUsize = std::sync::atomic::AtomicUsize::new(0);

pub fn run_scenario(sc: &Scenario, fault: Option<(u64, usize)>, prior: &[u8], out_idx: &Option<Idx>) -> (RunResult, Vec<usize>) {
    let rt = tokio::runtime::Builder::new_current_thread().build().unwrap();
    rt.block_on(async {
        let clone_ci = build_index(&sc.u, &sc.clone_idx, sc.hl);
        let mut mf = MemFile::new(prior.to_vec(), fault);
        // some fault-free runs on an output that accepts only a few bytes per write call (the caller has to offer the
        // rest again, as with any AsyncWrite)
        let sw = SHORT_WRITES.load(std::sync::atomic::Ordering::Relaxed);
        if fault.is_none() && sw > 0 { mf.short = Some(sw); }
        let mut out = CloneOutput::new(mf, clone_ci);
        let mut status = "OK".to_string();
        let mut moved = 0u64;
        let mut fed = vec![];
        let mut feeds: Vec<usize> = vec![];
        if let Some(oi) = out_idx {
            let oci = build_index(&sc.u, oi, sc.hl);
            match out.reorder_in_place(oci).await {
                Ok(n) => moved = n,
                Err(_) => status = "ERR".into(),
            }
        }
        if status == "OK" {
            for id in &sc.seeds {
                feeds.push(*id);
                match out.feed(&sc.u.verified(*id)).await {
                    Ok(n) => fed.push(n),
                    Err(_) => { status = "ERR".into(); break; }
                }
            }
        }
        let mut remaining = vec![];
        if status == "OK" {
            // archive phase: descriptors in archive order filtered by the index (Archive::chunk_stream)
            for (id, _, _) in &sc.clone_idx {
                if out.chunks().contains(&sc.u.hashes[*id]) {
                    remaining.push(*id);
                }
            }
            for id in &remaining {
                feeds.push(*id);
                match out.feed(&sc.u.verified(*id)).await {
                    Ok(n) => fed.push(n),
                    Err(_) => { status = "ERR".into(); break; }
                }
            }
        }
        let idx = ci_str(&sc.u, out.chunks());
        let mf = out.into_inner();
        let trace_s = mf.trace_str();
        (RunResult { status, moved, fed, file: mf.data.clone(), trace: mf.trace.clone(), trace_s, idx, remaining, nwrites: mf.nwrites }, feeds)
    })
}

/// The same in-place scenario placed beyond 2^32: the source starts with three occurrences of a chunk X of 2^31 bytes
/// that the prior output already holds in place (never read, never written: only its hash and offsets exist), then the
/// small scenario follows at offset 3 * 2^31.  Everything the clone does must be the small run shifted by that base.
pub const BIG_BASE: u64 = 3 << 31;

pub fn run_scenario_big(sc: &Scenario, prior: &[u8], out_idx: &Idx) -> (RunResult, Vec<u64>) {
    let rt = tokio::runtime::Builder::new_current_thread().build().unwrap();
    rt.block_on(async {
        let shift = |idx: &Idx| -> Idx { idx.iter().map(|(id, s, o)| (*id, *s, o.iter().map(|x| x + BIG_BASE).collect())).collect() };
        let xh = HashSum::from(&[0xA5u8; 64][..]);
        let xoffs = [0u64, 1 << 31, 2 << 31];
        let mut clone_ci = ChunkIndex::new_empty(sc.hl);
        clone_ci.add_chunk(xh.clone(), 1 << 31, &xoffs);
        for (id, size, offs) in &shift(&sc.clone_idx) { clone_ci.add_chunk(sc.u.hashes[*id].clone(), *size, offs); }
        let mut oci = ChunkIndex::new_empty(sc.hl);
        oci.add_chunk(xh.clone(), 1 << 31, &xoffs);
        for (id, size, offs) in &shift(out_idx) { oci.add_chunk(sc.u.hashes[*id].clone(), *size, offs); }
        let mut mf = MemFile::new(prior.to_vec(), None);
        mf.base = BIG_BASE;
        let mut out = CloneOutput::new(mf, clone_ci);
        let mut status = "OK".to_string();
        let mut moved = 0u64;
        let mut fed = vec![];
        match out.reorder_in_place(oci).await {
            Ok(n) => moved = n,
            Err(_) => status = "ERR".into(),
        }
        if status == "OK" {
            for id in &sc.seeds {
                match out.feed(&sc.u.verified(*id)).await {
                    Ok(n) => fed.push(n),
                    Err(_) => { status = "ERR".into(); break; }
                }
            }
        }
        let mut remaining = vec![];
        if status == "OK" {
            if out.chunks().contains(&xh) { status = "X-LEFT".into(); }
            for (id, _, _) in &sc.clone_idx {
                if out.chunks().contains(&sc.u.hashes[*id]) { remaining.push(*id); }
            }
            for id in &remaining {
                match out.feed(&sc.u.verified(*id)).await {
                    Ok(n) => fed.push(n),
                    Err(_) => { status = "ERR".into(); break; }
                }
            }
        }
        let idx = ci_str(&sc.u, out.chunks());
        let mf = out.into_inner();
        let trace_s = mf.trace_str();
        (RunResult { status, moved, fed, file: mf.data.clone(), trace: mf.trace.clone(), trace_s, idx, remaining, nwrites: mf.nwrites }, mf.low_touch.clone())
    })
}

fn ids_str(v: &[usize]) -> String {
    if v.is_empty() { "-".to_string() } else { v.iter().map(|x| x.to_string()).collect::<Vec<_>>().join(",") }
}

fn result_line(r: &RunResult) -> String {
    if r.status == "OK" {
        format!("OK {} {} {} {} {} {}", r.moved, ids_str(&r.fed), ids_str(&r.remaining), hex(&r.file), r.trace_s, r.idx)
    } else {
        format!("ERR {} {}", hex(&r.file), r.trace_s)
    }
}

fn feeds_str(sc: &Scenario, ids: &[usize]) -> String {
    if ids.is_empty() { "-".to_string() } else {
        ids.iter().map(|id| format!("{}={}", id, hex(&sc.u.datas[*id]))).collect::<Vec<_>>().join(";")
    }
}

fn case_line(sc: &Scenario, prior: &[u8], out_idx: &Option<Idx>, fault: Option<(u64, usize)>, _feeds: &[usize]) -> String {
    let arch: Vec<usize> = sc.clone_idx.iter().map(|e| e.0).collect();
    format!("clone {} {} {} {} {} {}",
        hex(prior), idx_str(&sc.clone_idx),
        match out_idx { Some(i) => format!("I{}", idx_str(i)), None => "N".into() },
        match fault { Some((k, t)) => format!("{},{}", k, t), None => "-".into() },
        feeds_str(sc, &sc.seeds), feeds_str(sc, &arch))
}

/// occurrences (offset -> id) of the source
fn occ(sc: &Scenario) -> HashMap<u64, usize> {
    let mut m = HashMap::new();
    for (id, _, offs) in &sc.clone_idx {
        for o in offs {
            m.insert(*o, *id);
        }
    }
    m
}

/// C13: the write trace of a run (offset, bytes)
fn c13_oracle(sc: &Scenario, out_idx: &Option<Idx>, trace: &[Tev], complete: bool) -> Result<(), String> {
    let occ = occ(sc);
    let mut seen: HashSet<u64> = HashSet::new();
    let inplace: HashSet<(u64, usize)> = match out_idx {
        Some(oi) => oi.iter().flat_map(|(id, _, offs)| offs.iter().map(move |o| (*o, *id))).collect(),
        None => HashSet::new(),
    };
    for e in trace {
        if let Tev::Write(off, d) = e {
            let id = occ.get(off).ok_or(format!("write at offset {} which is not a chunk offset of the source", off))?;
            let full = &sc.u.datas[*id];
            if complete && d != full {
                return Err(format!("write at {} is not the bytes of source chunk {}", off, id));
            }
            if !complete && full[..d.len().min(full.len())] != d[..] {
                return Err(format!("(torn) write at {} is not a prefix of source chunk {}", off, id));
            }
            if !seen.insert(*off) {
                return Err(format!("offset {} written twice", off));
            }
            if inplace.contains(&(*off, *id)) {
                return Err(format!("offset {} already held chunk {} in the prior output but was written", off, id));
            }
            if *off + d.len() as u64 > sc.source.len() as u64 {
                return Err(format!("write beyond the source length at {}", off));
            }
        }
    }
    Ok(())
}

fn check_run(sc: &Scenario, prior: &[u8], out_idx: &Option<Idx>, r: &RunResult, line: &str, st: &mut Stats) {
    st.oracle_checks += 3;
    if r.status == "OK" {
        // C02 / C03: success => output == source (regular file: resized to the source length afterwards)
        let n = sc.source.len();
        if r.file.len() < n || r.file[..n] != sc.source[..] {
            if out_idx.is_some() {
                st.violation("C03", "clone reported success but the output differs from the source", line);
            }
            if out_idx.is_none() || !sc.seeds.is_empty() {
                st.violation("C02", "clone reported success but the output differs from the source", line);
            }
        }
        if r.idx != "-" {
            st.violation("C02", "chunks left in the clone index after feeding every missing chunk", line);
        }
        // C06: the chunks fetched from the archive are exactly those not found in prior output / seeds
        let mut found: HashSet<usize> = sc.seeds.iter().copied().collect();
        if let Some(oi) = out_idx {
            for (id, _, _) in oi { found.insert(*id); }
        }
        let want: Vec<usize> = sc.clone_idx.iter().map(|e| e.0).filter(|id| !found.contains(id)).collect();
        if want != r.remaining {
            st.violation("C06", &format!("chunks fetched {:?} but missing from seeds/output are {:?}", r.remaining, want), line);
        }
    }
    if let Err(what) = c13_oracle(sc, out_idx, &r.trace, r.status == "OK") {
        st.violation("C13", &what, line);
    }
    let _ = prior;
}

/// scan a byte string with the real chunker + hasher (what chunk_index_from_readable does)
pub fn scan(u: &mut Universe, cfg: &crate::chunking::Cfg, data: &[u8]) -> Result<Idx, String> {
    let (chunks, _) = crate::chunking::run_chunker(cfg, data, vec![])?;
    let mut idx: Idx = vec![];
    for (off, d) in chunks {
        let id = u.id_of(&d);
        match idx.iter_mut().find(|e| e.0 == id) {
            Some(e) => e.2.push(off),
            None => idx.push((id, d.len(), vec![off])),
        }
    }
    Ok(idx)
}

fn edit(rng: &mut Rng, src: &[u8]) -> Vec<u8> {
    let mut v = src.to_vec();
    for _ in 0..rng.range(0, 4) {
        if v.is_empty() { break; }
        let a = rng.below(v.len() as u64) as usize;
        let l = rng.range(1, 40) as usize;
        match rng.below(5) {
            0 => { let ins: Vec<u8> = (0..l).map(|_| rng.next() as u8).collect(); v.splice(a..a, ins); }
            1 => { let b = (a + l).min(v.len()); v.drain(a..b); }
            2 => { let b = (a + l).min(v.len()); let blk: Vec<u8> = v[a..b].to_vec(); let p = rng.below(v.len() as u64 + 1) as usize; v.splice(p..p, blk); }
            3 => { let b = (a + l * 3).min(v.len()); let blk: Vec<u8> = v.drain(a..b).collect(); let p = rng.below(v.len() as u64 + 1) as usize; v.splice(p..p, blk); }
            _ => { v[a] ^= 0x55; }
        }
    }
    match rng.below(4) {
        0 => { let l = rng.below(v.len() as u64 + 1) as usize; v.truncate(l); }
        1 => { for _ in 0..rng.range(1, 60) { v.push(rng.next() as u8); } }
        _ => {}
    }
    v
}

fn gen_tiled(rng: &mut Rng) -> Scenario {
    let k = rng.range(1, 7) as usize;
    let mut u = Universe::new();
    for i in 0..k {
        let s = rng.range(1, 5) as usize;
        let d: Vec<u8> = (0..s).map(|j| if j == 0 { i as u8 + 0x41 } else { rng.next() as u8 }).collect();
        u.id_of(&d);
    }
    let ls = rng.range(0, 9) as usize;
    let src_seq: Vec<usize> = (0..ls).map(|_| rng.below(k as u64) as usize).collect();
    let lp = rng.range(0, 9) as usize;
    let prior_seq: Vec<usize> = (0..lp).map(|_| rng.below(k as u64) as usize).collect();
    let source: Vec<u8> = src_seq.iter().flat_map(|i| u.datas[*i].clone()).collect();
    let prior: Vec<u8> = prior_seq.iter().flat_map(|i| u.datas[*i].clone()).collect();
    let clone_idx = idx_of_seq(&u, &src_seq);
    let inplace = rng.chance(3, 4);
    let out_idx = if inplace { Some(idx_of_seq(&u, &prior_seq)) } else { None };
    let ns = rng.range(0, 4) as usize;
    let seeds: Vec<usize> = (0..ns).map(|_| rng.below(k as u64) as usize).collect();
    Scenario { u, source, prior: if inplace || rng.chance(1, 2) { prior } else { vec![] }, clone_idx, out_idx, seeds, hl: *rng.pick(&[4usize, 8, 32, 64]), kind: "tiled" }
}

fn gen_chunked(rng: &mut Rng) -> Option<(Scenario, crate::chunking::Cfg)> {
    let cfg = loop {
        let c = crate::chunking::gen_cfg(rng, true);
        if c.max <= 64 { break c; }
    };
    let len = rng.range(0, 500) as usize;
    let (source, _) = gen_data(rng, len);
    let prior = match rng.below(5) {
        0 => vec![],
        1 => { let l = rng.range(0, 400) as usize; gen_data(rng, l).0 }
        2 => source.clone(),
        _ => edit(rng, &source),
    };
    let mut u = Universe::new();
    let clone_idx = scan(&mut u, &cfg, &source).ok()?;
    let inplace = rng.chance(3, 4);
    let out_idx = if inplace { Some(scan(&mut u, &cfg, &prior).ok()?) } else { None };
    // seeds: chunks of an edited copy of the source and of unrelated data
    let mut seeds = vec![];
    for _ in 0..rng.range(0, 2) {
        let sd = if rng.chance(2, 3) { edit(rng, &source) } else { let l = rng.range(0, 300) as usize; gen_data(rng, l).0 };
        if let Ok(ix) = scan(&mut u, &cfg, &sd) {
            let mut occs: Vec<(u64, usize)> = ix.iter().flat_map(|(id, _, offs)| offs.iter().map(move |o| (*o, *id))).collect();
            occs.sort();
            seeds.extend(occs.iter().map(|x| x.1));
        }
    }
    Some((Scenario { u, source, prior, clone_idx, out_idx, seeds, hl: *rng.pick(&[4usize, 8, 64]), kind: "chunked" }, cfg))
}

pub fn suite_clone(dir: &str, seed: u64, thorough: bool, st: &mut Stats) {
    let mut out = SuiteOut::new(dir, "clone");
    let mut rng = Rng::new(seed ^ 0x66);
    let n = if thorough { 20000 } else { 500 };
    for i in 0..n {
        let (sc, cfg) = if i % 2 == 0 { (gen_tiled(&mut rng), None) } else {
            match gen_chunked(&mut rng) { Some((s, c)) => (s, Some(c)), None => continue }
        };
        // uninterrupted run
        SHORT_WRITES.store(if rng.chance(1, 3) { rng.range(1, 7) as usize } else { 0 }, std::sync::atomic::Ordering::Relaxed);
        let (r, feeds) = run_scenario(&sc, None, &sc.prior, &sc.out_idx);
        if SHORT_WRITES.swap(0, std::sync::atomic::Ordering::Relaxed) > 0 { st.count("clone/short-writes"); }
        let line = case_line(&sc, &sc.prior, &sc.out_idx, None, &feeds);
        check_run(&sc, &sc.prior, &sc.out_idx, &r, &line, st);
        st.evaluations += 1;
        st.count(&format!("clone/{}/{}", sc.kind, if sc.out_idx.is_some() { "in-place" } else { "plain" }));
        st.count(&format!("clone/writes/{}", match r.nwrites { 0 => "0", 1..=3 => "1-3", _ => "4+" }));
        if r.nwrites >= 2 { st.nontrivial_key(line.as_bytes()); }
        st.sample(line.clone());
        out.push(&line, &result_line(&r));
        // the same in-place scenario beyond 2^32 (offsets are u64 in the format; the model's are unbounded): same
        // statuses, counts, reads and writes, every position shifted by the base, nothing touched below it
        if let (Some(oi), true) = (&sc.out_idx, SHORT_WRITES.load(std::sync::atomic::Ordering::Relaxed) == 0) {
            let (small, _) = run_scenario(&sc, None, &sc.prior, &sc.out_idx);
            let big = std::panic::catch_unwind(std::panic::AssertUnwindSafe(|| run_scenario_big(&sc, &sc.prior, oi)));
            st.evaluations += 1;
            st.oracle_checks += 1;
            st.count("clone/beyond-2^32");
            match big {
                Err(_) => st.violation("C03", "in-place clone placed beyond 2^32 panics", &line),
                Ok((b, low)) => {
                    let shifted: Vec<Tev> = small.trace.iter().map(|e| match e { Tev::Seek(o) => Tev::Seek(o + BIG_BASE), Tev::Write(o, d) => Tev::Write(o + BIG_BASE, d.clone()), x => x.clone() }).collect();
                    if !low.is_empty() { st.violation("C13", &format!("in-place clone placed beyond 2^32 touches offset {} (below the base: a chunk that is in place, or a truncated offset)", low[0]), &line); }
                    if b.status != small.status || b.file != small.file { st.violation("C03", &format!("in-place clone placed beyond 2^32 ends {} with another content than the same clone at offset 0 ({})", b.status, small.status), &line); }
                    else if !low.is_empty() {} else if b.trace != shifted { st.violation("C13", "in-place clone placed beyond 2^32 issues other reads/writes than the same clone at offset 0", &line); }
                    else if b.moved != small.moved + BIG_BASE || b.fed != small.fed || b.idx != small.idx { st.violation("C03", "in-place clone placed beyond 2^32 reports other counts than the same clone at offset 0 (plus the 3 * 2^31 bytes in place before it)", &line); }
                }
            }
        }
        // C05: interrupt at write k with tear t, then re-run in place on what is left
        let do_faults = i % 4 < 2 || thorough;
        if do_faults && r.status == "OK" {
            let w = r.nwrites;
            let ks: Vec<u64> = if w <= 6 { (0..w).collect() } else { vec![0, 1, w / 2, w - 1] };
            for k in ks {
                for t in [0usize, 1, 2, 1000] {
                    let (fr, ffeeds) = run_scenario(&sc, Some((k, t)), &sc.prior, &sc.out_idx);
                    let fline = case_line(&sc, &sc.prior, &sc.out_idx, Some((k, t)), &ffeeds);
                    st.evaluations += 1;
                    st.oracle_checks += 1;
                    st.count("clone/fault-runs");
                    if fr.status == "OK" {
                        st.violation("C05", &format!("write {} failed (tear {}) but the run reported success", k, t), &fline);
                    }
                    if let Err(what) = c13_oracle(&sc, &sc.out_idx, &fr.trace, false) {
                        st.violation("C13", &what, &fline);
                    }
                    out.push(&fline, &result_line(&fr));
                    // re-run with the output as seed (needs a real scan: only for chunker-based scenarios)
                    if let Some(cfg) = &cfg {
                        let mut sc2 = Scenario { u: Universe::new(), source: sc.source.clone(), prior: fr.file.clone(), clone_idx: vec![], out_idx: None, seeds: vec![], hl: sc.hl, kind: "rerun" };
                        let ci = scan(&mut sc2.u, cfg, &sc.source);
                        let oi = scan(&mut sc2.u, cfg, &fr.file);
                        if let (Ok(ci), Ok(oi)) = (ci, oi) {
                            sc2.clone_idx = ci;
                            sc2.out_idx = Some(oi);
                            let (rr, rfeeds) = run_scenario(&sc2, None, &sc2.prior, &sc2.out_idx);
                            let rline = case_line(&sc2, &sc2.prior, &sc2.out_idx, None, &rfeeds);
                            st.evaluations += 1;
                            st.oracle_checks += 1;
                            st.count("clone/reruns-after-fault");
                            let n = sc2.source.len();
                            if rr.status != "OK" || rr.file.len() < n || rr.file[..n] != sc2.source[..] {
                                st.violation("C05", &format!("re-run after a failure at write {} (tear {}) did not reproduce the source", k, t), &rline);
                            }
                            check_run(&sc2, &sc2.prior, &sc2.out_idx, &rr, &rline, st);
                            out.push(&rline, &result_line(&rr));
                        }
                    }
                }
            }
        }
    }
    out.finish();
}

/// replay of a stored `clone`/`planner` case line against the implementation oracles
pub fn replay(line: &str) -> Result<(), String> {
    let t: Vec<&str> = line.split(' ').collect();
    match t[0] {
        "planner" => {
            // rebuild a universe with the sizes named in the indexes
            let cur = parse_idx(t[1]);
            let tgt = parse_idx(t[2]);
            let maxid = cur.iter().chain(tgt.iter()).map(|e| e.0).max().unwrap_or(0);
            let mut sizes = vec![1usize; maxid + 1];
            for e in cur.iter().chain(tgt.iter()) { sizes[e.0] = e.1; }
            let u = small_universe(&sizes);
            let mut seq: Vec<(u64, usize)> = cur.iter().flat_map(|(id, _, offs)| offs.iter().map(move |o| (*o, *id))).collect();
            seq.sort();
            let cur_seq: Vec<usize> = seq.iter().map(|x| x.1).collect();
            let cur_ci = build_index(&u, &cur, 64);
            let mut tgt_ci = build_index(&u, &tgt, 64);
            let r = std::panic::catch_unwind(std::panic::AssertUnwindSafe(|| {
                cur_ci.strip_chunks_already_in_place(&mut tgt_ci);
                let ops = cur_ci.reorder_ops(&tgt_ci);
                planner_oracle(&u, &cur_seq, &tgt_ci, &ops)
            }));
            match r { Ok(x) => x, Err(_) => Err("planner panicked".into()) }
        }
        "clone" => {
            let prior = unhex(t[1]);
            let clone_idx = parse_idx(t[2]);
            let out_idx = if t[3] == "N" { None } else { Some(parse_idx(&t[3][1..])) };
            let fault = if t[4] == "-" { None } else { let p: Vec<&str> = t[4].split(',').collect(); Some((p[0].parse().unwrap(), p[1].parse().unwrap())) };
            // universe from the feeds and the prior content
            let mut u = Universe::new();
            let mut datas: BTreeMap<usize, Vec<u8>> = BTreeMap::new();
            for tok in [t[5], t[6]] {
                if tok != "-" {
                    for f in tok.split(';') { let p: Vec<&str> = f.split('=').collect(); datas.insert(p[0].parse().unwrap(), unhex(p[1])); }
                }
            }
            if let Some(oi) = &out_idx {
                for (id, size, offs) in oi { if let Some(o) = offs.first() { datas.entry(*id).or_insert(prior[*o as usize..*o as usize + size].to_vec()); } }
            }
            let maxid = clone_idx.iter().map(|e| e.0).chain(datas.keys().copied()).max().unwrap_or(0);
            for id in 0..=maxid {
                let d = datas.get(&id).cloned().unwrap_or_else(|| format!("missing-{}", id).into_bytes());
                u.datas.push(d.clone());
                u.hashes.push(Chunk::from(d.clone()).verify().hash().clone());
                u.by_data.insert(d, id);
            }
            let mut source = vec![];
            let mut occs: Vec<(u64, usize)> = clone_idx.iter().flat_map(|(id, _, offs)| offs.iter().map(move |o| (*o, *id))).collect();
            occs.sort();
            for (_, id) in &occs { source.extend_from_slice(&u.datas[*id]); }
            // seeds = feeds before the archive phase are not distinguishable in the line: replay feeds as seeds
            let seeds: Vec<usize> = if t[5] == "-" { vec![] } else { t[5].split(';').map(|f| f.split('=').next().unwrap().parse().unwrap()).collect() };
            let sc = Scenario { u, source, prior: prior.clone(), clone_idx, out_idx: out_idx.clone(), seeds: seeds.clone(), hl: 64, kind: "replay" };
            let (r, _) = run_scenario(&sc, fault, &prior, &out_idx);
            let _ = seeds;
            let mut st = Stats::default();
            check_run(&sc, &prior, &out_idx, &r, line, &mut st);
            if fault.is_some() && r.status == "OK" { return Err("failed write but success reported".into()); }
            match st.violations.first() { Some(v) => Err(v.1.clone()), None => Ok(()) }
        }
        _ => Err("unknown".into()),
    }
}
