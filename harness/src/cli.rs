//! CLI suites: the bita binary built from the working tree (hook guard on) run in scenario directories.
//! `clirt` (C01, C11, C12), `cliclone` (C02, C03, C06, C07), `clirefuse` (C14, C04 pinned header),
//! `clitrace` (C16, C05 fault injection through strace).
use crate::archive::{b2, c11_oracle, compress_line, CompressCase};
use crate::chunking::Cfg;
use crate::http::{log_str, SItem, ScriptServer};
use crate::util::*;
use std::collections::BTreeMap;
use std::path::{Path, PathBuf};
use std::process::{Command, Stdio};

pub fn bita_bin() -> String {
    std::env::var("BITA_BIN").unwrap_or_else(|_| "/verif/build/target-cli/debug/bita".to_string())
}

pub struct Scn {
    pub dir: PathBuf,
}

impl Scn {
    pub fn new(tag: &str, n: u64) -> Scn {
        let base = std::env::var("VERIF_SCRATCH").unwrap_or_else(|_| "/verif/build/scratch".to_string());
        let dir = PathBuf::from(format!("{}/{}-{}-{}", base, tag, std::process::id(), n));
        let _ = std::fs::remove_dir_all(&dir);
        std::fs::create_dir_all(&dir).unwrap();
        Scn { dir }
    }
    pub fn p(&self, name: &str) -> PathBuf { self.dir.join(name) }
    pub fn write(&self, name: &str, data: &[u8]) { std::fs::write(self.p(name), data).unwrap(); }
    pub fn read(&self, name: &str) -> Option<Vec<u8>> { std::fs::read(self.p(name)).ok() }
    pub fn listing(&self) -> Vec<String> {
        let mut v: Vec<String> = std::fs::read_dir(&self.dir).unwrap().map(|e| e.unwrap().file_name().to_string_lossy().to_string()).collect();
        v.sort();
        v
    }
    /// run bita with args (cwd = scenario dir); returns (exit code, stdout+stderr)
    pub fn bita(&self, args: &[&str], stdin: Option<&[u8]>, env: &[(&str, &str)]) -> (i32, String) {
        self.run(&bita_bin(), args, stdin, env)
    }
    pub fn run(&self, prog: &str, args: &[&str], stdin: Option<&[u8]>, env: &[(&str, &str)]) -> (i32, String) {
        // clones of small test archives take milliseconds; compress at high levels may take minutes
        let limit = if args.iter().any(|a| *a == "clone" || *a == "info") { 90 } else { 600 };
        self.run_limit(prog, args, stdin, env, limit)
    }
    pub fn run_limit(&self, prog: &str, args: &[&str], stdin: Option<&[u8]>, env: &[(&str, &str)], limit_s: u64) -> (i32, String) {
        use std::io::Read;
        // once a few commands of this process have had to be killed, later ones get a short limit: a systematic hang
        // (lost wake-up, endless retry) is reported by every one of them and must not take hours to report
        static KILLED: std::sync::atomic::AtomicUsize = std::sync::atomic::AtomicUsize::new(0);
        let limit_s = if KILLED.load(std::sync::atomic::Ordering::Relaxed) >= 3 { limit_s.min(15) } else { limit_s };
        let mut c = Command::new(prog);
        c.args(args).current_dir(&self.dir).stdout(Stdio::piped()).stderr(Stdio::piped());
        for (k, v) in env { c.env(k, v); }
        c.stdin(if stdin.is_some() { Stdio::piped() } else { Stdio::null() });
        let mut child = c.spawn().unwrap();
        if let Some(d) = stdin {
            use std::io::Write;
            let mut si = child.stdin.take().unwrap();
            let d = d.to_vec();
            std::thread::spawn(move || { let _ = si.write_all(&d); });
        }
        let mut so = child.stdout.take().unwrap();
        let mut se = child.stderr.take().unwrap();
        let t1 = std::thread::spawn(move || { let mut v = vec![]; let _ = so.read_to_end(&mut v); v });
        let t2 = std::thread::spawn(move || { let mut v = vec![]; let _ = se.read_to_end(&mut v); v });
        // watchdog: a command that neither finishes nor fails is killed and reported with status -99 (C15)
        let start = std::time::Instant::now();
        let status = loop {
            match child.try_wait() {
                Ok(Some(st)) => break Some(st),
                Ok(None) => {
                    if start.elapsed() > std::time::Duration::from_secs(limit_s) { KILLED.fetch_add(1, std::sync::atomic::Ordering::Relaxed); let _ = child.kill(); let _ = child.wait(); break None; }
                    std::thread::sleep(std::time::Duration::from_millis(5));
                }
                Err(_) => break None,
            }
        };
        let out = t1.join().unwrap_or_default();
        let err = t2.join().unwrap_or_default();
        let code = match status { Some(st) => st.code().unwrap_or(-(st.to_string().len() as i32)), None => -99 };
        (code, String::from_utf8_lossy(&out).to_string() + &String::from_utf8_lossy(&err) + if status.is_none() { "\nTIMEOUT: killed by the harness (no result within its time limit)" } else { "" })
    }
}

impl Drop for Scn {
    fn drop(&mut self) { let _ = std::fs::remove_dir_all(&self.dir); }
}

/// command line arguments selecting the chunker configuration / compression of a case
/// a size as the command line accepts it: plain, with the `B` unit, or in KiB / MiB when it is a multiple
/// (which spelling is used depends on the value only, so that a case prints the same way every time)
pub fn size_arg(v: usize) -> String {
    if v != 0 && v % (1 << 20) == 0 && (v >> 20) % 2 == 1 { return format!("{}MiB", v >> 20); }
    if v != 0 && v % 1024 == 0 && (v >> 10) % 3 != 0 { return format!("{}KiB", v >> 10); }
    if v % 5 == 0 { format!("{}B", v) } else { format!("{}", v) }
}

pub fn compress_args(c: &CompressCase) -> Vec<String> {
    let mut a: Vec<String> = vec![];
    match c.cfg.algo {
        'F' => { a.push("--fixed-size".into()); a.push(if c.cfg.max % 1024 == 0 { size_arg(c.cfg.max) } else { format!("{}B", c.cfg.max) }); }
        algo => {
            a.push("--hash-chunking".into());
            a.push(if algo == 'B' { "BuzHash".into() } else { "RollSum".into() });
            // (the target size is rounded DOWN to a power of two: two cases in three give a size that is not one)
            let base = 1usize << (c.cfg.bits + 1);
            let extra = (c.src.len() * 7919 + c.hashlen * 31 + c.cfg.min) % base;
            let avg = if c.src.len() % 3 == 0 || base + extra > c.cfg.max { base } else { base + extra };
            a.push("--avg-chunk-size".into()); a.push(size_arg(avg));
            a.push("--min-chunk-size".into()); a.push(size_arg(c.cfg.min));
            a.push("--max-chunk-size".into()); a.push(size_arg(c.cfg.max));
            a.push("--rolling-window-size".into()); a.push(size_arg(c.cfg.win));
        }
    }
    a.push("--hash-length".into()); a.push(format!("{}", c.hashlen));
    match c.comp {
        None => { a.push("--compression".into()); a.push("none".into()); }
        Some((t, l)) => { a.push("--compression".into()); a.push(match t { 1 => "lzma", 2 => "zstd", _ => "brotli" }.into()); a.push("--compression-level".into()); a.push(format!("{}", l)); }
    }
    for (k, v) in &c.meta {
        a.push("--metadata-value".into()); a.push(k.clone()); a.push(String::from_utf8_lossy(v).to_string());
    }
    a
}

/// configurations the command line accepts: min <= avg <= max, hash length 4..64, metadata values are strings
pub fn gen_cli_case(rng: &mut Rng, big: bool) -> CompressCase {
    let algo = *rng.pick(&['R', 'B', 'R', 'B', 'F']);
    let cfg = if algo == 'F' {
        Cfg { algo, bits: 0, min: 0, max: if big { 1 << 16 } else if rng.chance(1, 5) { 1024 * rng.range(1, 4) as usize } else { rng.range(1, 600) as usize }, win: 0 }
    } else {
        let bits = if big { 12 } else { rng.range(1, 7) as u32 };
        let avg = 1usize << (bits + 1);
        let win = *rng.pick(&[1usize, 4, 16, 32, 64]);
        let min = rng.below(avg as u64 + 1) as usize;
        let max = (avg + rng.below(if big { 1 << 21 } else { 3000 }) as usize).max(win);
        // the edges of what the command line accepts: min = avg = max, window = max
        match if big { 9 } else { rng.below(8) } {
            0 if win <= avg => Cfg { algo, bits, min: avg, max: avg, win },
            1 => Cfg { algo, bits, min, max, win: max },
            // sizes that are written with units on the command line
            2 => { let bits = rng.range(9, 11) as u32; let avg = 1usize << (bits + 1); Cfg { algo, bits, min: 1024 * rng.below((avg >> 10) as u64 + 1) as usize, max: avg + 1024 * rng.below(6) as usize, win: *rng.pick(&[16usize, 64, 1024]) } }
            _ => Cfg { algo, bits, min, max, win },
        }
    };
    let len = if big { (1 << 20) + rng.range(0, 400_000) as usize } else {
        match rng.below(8) { 0 => 0, 1 => 1, 2 => cfg.win.saturating_sub(1), 3 => cfg.min + 1, _ => rng.range(0, 30000) as usize }
    };
    let (src, _) = gen_data(rng, len);
    let mut meta = BTreeMap::new();
    for _ in 0..rng.below(3) {
        meta.insert(format!("key{}", rng.below(5)), format!("value-{}", rng.below(1000)).into_bytes());
    }
    CompressCase { cfg, hashlen: rng.range(4, 64) as usize, comp: crate::archive::gen_comp(rng), meta, src }
}

fn par_for<F: Fn(usize, &mut Stats, &mut Vec<(String, String)>) + Sync>(n: usize, threads: usize, f: F, st: &mut Stats, out: &mut SuiteOut) {
    let results: Vec<(Stats, Vec<(String, String)>)> = std::thread::scope(|s| {
        let hs: Vec<_> = (0..threads).map(|t| {
            let f = &f;
            s.spawn(move || {
                let mut st = Stats::default();
                let mut lines = vec![];
                let mut i = t;
                while i < n { f(i, &mut st, &mut lines); i += threads; }
                (st, lines)
            })
        }).collect();
        hs.into_iter().map(|h| h.join().unwrap()).collect()
    });
    for (s2, lines) in results {
        st.evaluations += s2.evaluations;
        st.oracle_checks += s2.oracle_checks;
        for k in s2.nontrivial { st.nontrivial.insert(k); }
        for (k, v) in s2.dist { *st.dist.entry(k).or_insert(0) += v; }
        for x in s2.samples { st.sample(x); }
        for (p, w, r) in s2.violations { st.violation(&p, &w, &r); }
        for (c, i) in lines { out.push(&c, &i); }
    }
}

// ---------------------------------------------------------------------------------------------
/// chunks of several MiB (far beyond the codecs' windows and block sizes) through every codec at its lowest and a high
/// level: compress -> clone must reproduce the source (no model line: the round trip itself is the oracle)
fn huge_chunk_cases(seed: u64, thorough: bool, st: &mut Stats) {
    let mut cases: Vec<(&str, u32)> = vec![("lzma", 1), ("zstd", 1), ("brotli", 1)];
    if thorough { cases.extend([("lzma", 9), ("lzma", 3), ("zstd", 19), ("brotli", 9), ("none", 0)]); } else { cases.push(("lzma", 6)); }
    // one chunk beyond the default maximum chunk size of 16 MiB (level 101 = level 1, a 17 MiB chunk in an 18 MiB source)
    cases.push(("zstd", 101));
    if thorough { cases.extend([("brotli", 101), ("lzma", 101)]); }
    let cases = &cases;
    let results: Vec<Option<String>> = std::thread::scope(|sc| {
        let hs: Vec<_> = (0..cases.len()).map(|i| sc.spawn(move || {
            let (codec, level) = cases[i];
            let over16 = level > 100;
            let level = level % 100;
            let mut rng = Rng::new(seed ^ 0x9a ^ ((i as u64) << 12));
            // low-alphabet data (compressible, but not trivially): 9 MiB in chunks of 4 MiB (or 18 MiB, one chunk of 17 MiB)
            let n = if over16 { 18 * 1024 * 1024 + 999 } else { 9 * 1024 * 1024 + 12345 };
            let src: Vec<u8> = (0..n).map(|_| b"0123456789abcdef"[rng.below(16) as usize]).collect();
            let s = Scn::new("hc", i as u64);
            s.write("src.bin", &src);
            let lv = format!("{}", level);
            let mut a: Vec<&str> = vec!["compress", "-i", "src.bin", "--fixed-size", if over16 { "17MiB" } else { "4MiB" }, "--compression", codec];
            if codec != "none" { a.extend(["--compression-level", lv.as_str()]); }
            a.push("big.cba");
            let (c1, l1) = s.bita(&a, None, &[]);
            if c1 != 0 { return Some(format!("huge chunks, {} level {}: compress failed: {}", codec, level, l1.lines().last().unwrap_or(""))); }
            let (c2, l2) = s.bita(&["clone", "big.cba", "out.bin"], None, &[]);
            if c2 != 0 || s.read("out.bin").as_deref() != Some(&src[..]) { return Some(format!("huge chunks, {} level {}: clone of the fresh archive does not reproduce the source (exit {}): {}", codec, level, c2, l2.lines().last().unwrap_or(""))); }
            None
        })).collect();
        hs.into_iter().map(|h| h.join().unwrap()).collect()
    });
    for (i, r) in results.into_iter().enumerate() {
        st.evaluations += 1;
        st.oracle_checks += 1;
        st.count(&format!("clihuge/{}-{}", cases[i].0, cases[i].1));
        if let Some(what) = r { st.violation("C01", &what, &format!("clirt-huge {} {}", cases[i].0, cases[i].1)); }
    }
}

/// Suite `clihuge` (C01)
fn big_header_case(seed: u64, st: &mut Stats) {
    let mut rng = Rng::new(seed ^ 0x9b);
    let s = Scn::new("bh", 0);
    let src = gen_data(&mut rng, 300_000).0;
    let meta: Vec<u8> = (0..1_600_000).map(|_| rng.next() as u8).collect();
    s.write("src.bin", &src);
    s.write("meta.bin", &meta);
    let (c1, l1) = s.bita(&["compress", "-i", "src.bin", "--metadata-file", "blob", "meta.bin", "--hash-length", "32", "big.cba"], None, &[]);
    st.evaluations += 1;
    st.oracle_checks += 1;
    st.count("clirt/header-over-1MiB");
    let line = "clirt big-header";
    if c1 != 0 { st.violation("C11", &format!("compress with a 1.6 MB metadata value fails: {}", l1.lines().last().unwrap_or("")), line); return; }
    let (c2, l2) = s.bita(&["info", "big.cba"], None, &[]);
    if c2 != 0 || !info_has(&l2, &["hash", "length"], "32") || !info_has(&l2, &["metadata", "blob"], "1600000") { st.violation("C11", &format!("bita info on an archive with a header over 1 MiB: exit {} {}", c2, l2.lines().last().unwrap_or("")), line); }
    let o = std::process::Command::new(bita_bin()).args(["info", "--metadata-key", "blob", "big.cba"]).current_dir(&s.dir).output();
    if !matches!(o, Ok(ref x) if x.status.success() && x.stdout == meta) { st.violation("C11", "the 1.6 MB metadata value is not reported back", line); }
    let (c3, _) = s.bita(&["clone", "big.cba", "out.bin"], None, &[]);
    if c3 != 0 || s.read("out.bin").as_deref() != Some(&src[..]) { st.violation("C01", "an archive with a header over 1 MiB is not cloned back to its source", line); }
}

pub fn suite_clihuge(dir: &str, seed: u64, thorough: bool, st: &mut Stats) {
    let out = SuiteOut::new(dir, "clihuge");
    huge_chunk_cases(seed, thorough, st);
    out.finish();
}

/// sizes given with the GiB unit (chunk sizes up to 4 GiB - 1 are representable): what is recorded is what was asked for
fn gib_unit_case(seed: u64, st: &mut Stats) {
    let mut rng = Rng::new(seed ^ 0x9c);
    let s = Scn::new("gib", 0);
    let src = gen_data(&mut rng, 50_000).0;
    s.write("src.bin", &src);
    st.evaluations += 1;
    st.oracle_checks += 1;
    st.count("clirt/gib-unit");
    let line = "clirt gib-unit --max-chunk-size 2GiB / --fixed-size 3GiB";
    let (c1, l1) = s.bita(&["compress", "-i", "src.bin", "--min-chunk-size", "1KiB", "--avg-chunk-size", "4KiB", "--max-chunk-size", "2GiB", "g.cba"], None, &[]);
    if c1 != 0 { st.violation("C11", &format!("compress with --max-chunk-size 2GiB fails: {}", l1.lines().last().unwrap_or("")), line); return; }
    let (c2, l2) = s.bita(&["info", "g.cba"], None, &[]);
    if c2 != 0 || !info_has(&l2, &["max"], "2147483648") || !info_has(&l2, &["min"], "1024") { st.violation("C11", "bita info does not report the maximum chunk size 2 GiB (2147483648 bytes) that was asked for", line); }
    let (c3, _) = s.bita(&["clone", "g.cba", "g.out"], None, &[]);
    if c3 != 0 || s.read("g.out").as_deref() != Some(&src[..]) { st.violation("C01", "an archive written with --max-chunk-size 2GiB is not cloned back to its source", line); }
    let (c4, _) = s.bita(&["compress", "-i", "src.bin", "--fixed-size", "3GiB", "f.cba"], None, &[]);
    let (c5, l5) = s.bita(&["info", "f.cba"], None, &[]);
    if c4 != 0 || c5 != 0 || !info_has(&l5, &["fixed", "size"], "3221225472") { st.violation("C11", "bita info does not report the fixed chunk size 3 GiB (3221225472 bytes) that was asked for", line); }
}

/// more unique chunks than 16 bits can count (indexes of the rebuild order beyond 65535)
fn many_chunks_case(seed: u64, st: &mut Stats) {
    let mut rng = Rng::new(seed ^ 0x9d);
    let s = Scn::new("many", 0);
    let src: Vec<u8> = (0..16 * 70_000 + 5).map(|_| rng.next() as u8).collect();
    s.write("src.bin", &src);
    st.evaluations += 1;
    st.oracle_checks += 2;
    st.count("clirt/70001-unique-chunks");
    let line = "clirt many-chunks --fixed-size 16 --compression none, 1120005 random bytes";
    let (c1, l1) = s.bita(&["compress", "-i", "src.bin", "--fixed-size", "16", "--compression", "none", "--hash-length", "8", "m.cba"], None, &[]);
    if c1 != 0 { st.violation("C11", &format!("compress into 70001 chunks fails: {}", l1.lines().last().unwrap_or("")), line); return; }
    let archive = s.read("m.cba").unwrap_or_default();
    let c = CompressCase { cfg: Cfg { algo: 'F', bits: 0, min: 0, max: 16, win: 0 }, hashlen: 8, comp: None, meta: std::collections::BTreeMap::new(), src: src.clone() };
    if let Err(what) = c11_oracle(&c, &archive) { st.violation("C11", &format!("CLI archive with 70001 unique chunks: {}", what), line); }
    let (c3, _) = s.bita(&["clone", "m.cba", "m.out"], None, &[]);
    if c3 != 0 || s.read("m.out").as_deref() != Some(&src[..]) { st.violation("C01", "an archive of 70001 unique chunks is not cloned back to its source", line); }
}

pub fn suite_clirt(dir: &str, seed: u64, thorough: bool, st: &mut Stats) {
    big_header_case(seed, st);
    gib_unit_case(seed, st);
    many_chunks_case(seed, st);
    let mut out = SuiteOut::new(dir, "clirt");
    let n = if thorough { 400 } else { 48 };
    let nbig = if thorough { 4 } else { 1 };
    par_for(n + nbig, 12, |i, st, lines| {
        let mut rng = Rng::new(seed ^ 0x91 ^ ((i as u64) << 20));
        let big = i >= n;
        let c = if !big && i < 8 {
            // every codec at its highest levels on compressible data (window / memory settings grow with the level)
            let mut c = gen_cli_case(&mut rng, false);
            let (t, l) = [(2u32, 22u32), (2, 21), (2, 20), (1, 9), (3, 11), (3, 10), (2, 19), (1, 8)][i];
            c.comp = Some((t, l));
            // (few, larger chunks: the high levels allocate their large windows once per chunk)
            c.cfg = if i % 2 == 0 { Cfg { algo: 'F', bits: 0, min: 0, max: 8192, win: 0 } } else { Cfg { algo: 'R', bits: 11, min: 2048, max: 16384, win: 64 } };
            c.src = (0..rng.range(20_000, 60_000)).map(|_| b"abcdefgh01"[rng.below(10) as usize]).collect();
            st.count("clirt/highest-levels");
            c
        } else if !big && i % 6 == 5 { match crate::archive::equal_size_case(&mut rng) { Some(c) => { st.count("clirt/equal-size-chunk"); c } None => gen_cli_case(&mut rng, false) } }
                else if !big && i % 6 == 2 {
                    // stretches of incompressible and of compressible data, many small chunks, a real codec: whether a
                    // chunk is stored compressed is a matter of that chunk alone, whatever was stored before it and
                    // however far the pipeline runs ahead (the second compress below uses other buffering)
                    let mut c = gen_cli_case(&mut rng, false);
                    c.cfg = Cfg { algo: *rng.pick(&['R', 'B']), bits: 8, min: 128, max: 2048, win: 16 };
                    c.comp = Some((*rng.pick(&[3u32, 2, 1]), 3));
                    let words: Vec<Vec<u8>> = (0..40).map(|_| (0..rng.range(2, 9)).map(|_| b"etaoinshrdlu "[rng.below(13) as usize]).collect()).collect();
                    let mut v: Vec<u8> = vec![];
                    for part in 0..4 {
                        let l = rng.range(12_000, 40_000) as usize;
                        if part % 2 == 0 { for _ in 0..l { v.push(rng.next() as u8); } }
                        else { let e = v.len() + l; while v.len() < e { let w: &Vec<u8> = &words[rng.below(words.len() as u64) as usize]; v.extend_from_slice(w); } }
                    }
                    c.src = v;
                    st.count("clirt/mixed-compressibility");
                    c
                }
                else { gen_cli_case(&mut rng, big) };
        let s = Scn::new("rt", i as u64);
        s.write("src.bin", &c.src);
        let mut args: Vec<String> = vec!["compress".into(), "-i".into(), "src.bin".into()];
        args.extend(compress_args(&c));
        if i % 3 == 0 && !c.meta.is_empty() {
            // the same metadata given through files (binary safe) instead of on the command line
            let mut a2: Vec<String> = vec![];
            let mut it = args.into_iter();
            let mut n = 0;
            while let Some(x) = it.next() {
                if x == "--metadata-value" {
                    let k = it.next().unwrap(); let _ = it.next();
                    let f = format!("meta{}.bin", n); n += 1;
                    std::fs::write(s.p(&f), &c.meta[&k]).unwrap();
                    a2.extend(["--metadata-file".to_string(), k, f]);
                } else { a2.push(x); }
            }
            args = a2;
            st.count("clirt/metadata-file");
        }
        args.push("--buffered-chunks".into()); args.push(format!("{}", rng.pick(&[1, 2, 3, 8, 64])));
        args.push("out.cba".into());
        let argv: Vec<&str> = args.iter().map(|x| x.as_str()).collect();
        let (code, log) = s.bita(&argv, None, &[]);
        st.evaluations += 1;
        st.count(&format!("clirt/{}/{}", c.cfg.algo, match c.comp { None => "none", Some((1, _)) => "lzma", Some((2, _)) => "zstd", _ => "brotli" }));
        let desc = format!("clirt {} hl={} comp={:?} src={}", c.cfg.line(), c.hashlen, c.comp, hex(&c.src[..c.src.len().min(64)]));
        st.sample(format!("bita {}", args.join(" ")));
        let replay = format!("clirt {}", compress_line(&c, &[]).splitn(2, ' ').nth(1).unwrap_or(""));
        if code != 0 {
            st.violation("C01", &format!("bita compress failed (exit {}): {}", code, log.lines().last().unwrap_or("")), &replay);
            return;
        }
        let archive = s.read("out.cba").unwrap_or_default();
        st.oracle_checks += 4;
        if let Err(what) = c11_oracle(&c, &archive) { st.violation("C11", &format!("CLI archive: {}", what), &replay); }
        // leaves exactly one new file
        let l = s.listing();
        let l: Vec<String> = l.into_iter().filter(|f| !(f.starts_with("meta") && f.ends_with(".bin"))).collect();
        if l != vec!["out.cba".to_string(), "src.bin".to_string()] { st.violation("C16", &format!("compress left {:?}", l), &replay); }
        // C11 (file ends at the last stored chunk) when an existing, larger output is overwritten
        if i % 4 == 1 {
            let mut junk = archive.clone();
            junk.extend((0..rng.range(1, 5000)).map(|_| rng.next() as u8));
            s.write("over.cba", &junk);
            let mut args3: Vec<String> = vec!["compress".into(), "--force-create".into(), "-i".into(), "src.bin".into()];
            args3.extend(compress_args(&c));
            args3.push("over.cba".into());
            let argv3: Vec<&str> = args3.iter().map(|x| x.as_str()).collect();
            let (code3, _) = s.bita(&argv3, None, &[]);
            let over = s.read("over.cba").unwrap_or_default();
            if code3 != 0 || over != archive {
                st.violation("C11", "compress --force-create over an existing larger file does not leave exactly the archive", &replay);
                // the same input and options give other archive bytes than onto a fresh path
                st.violation("C12", "compress --force-create over an existing larger file gives other bytes than the same compress onto a fresh path", &replay);
            }
            let _ = std::fs::remove_file(s.p("over.cba"));
        }
        // C12 / C11: what an earlier, interrupted run left behind (a stale temp file, longer than this run's chunk
        // data) is not part of the result
        if i % 4 == 2 {
            let stale: Vec<u8> = (0..archive.len() + rng.range(1, 5000) as usize).map(|_| rng.next() as u8).collect();
            s.write("again..tmp", &stale);
            let mut args4: Vec<String> = vec!["compress".into(), "-i".into(), "src.bin".into()];
            args4.extend(compress_args(&c));
            args4.push("again.cba".into());
            let argv4: Vec<&str> = args4.iter().map(|x| x.as_str()).collect();
            let (code4, _) = s.bita(&argv4, None, &[]);
            let again = s.read("again.cba").unwrap_or_default();
            st.count("clirt/stale-temp-file");
            if code4 != 0 || again != archive {
                st.violation("C12", "compress with a stale temp file of an earlier run present gives another archive (or fails)", &replay);
            }
            if s.p("again..tmp").exists() { st.violation("C16", "the temp file is left behind", &replay); }
            let extra: Vec<String> = s.listing().into_iter().filter(|f| f.starts_with("again") && f != "again.cba").collect();
            if !extra.is_empty() { st.violation("C16", &format!("compress with a stale temp file present leaves {:?} besides the archive", extra), &replay); }
            let _ = std::fs::remove_file(s.p("again.cba"));
        }
        // C16: output names with several dots, no dot, or a leading dot, next to files whose names resemble a temp file's:
        // the archive is the only new file and every file that was there keeps its content
        if i % 4 == 1 {
            let name = *rng.pick(&["rel.1.2.cba", "image.tar.gz.cba", "noext", ".hidden.cba", "a.b"]);
            let stem = std::path::Path::new(name).file_stem().unwrap().to_string_lossy().to_string();
            let first = name.trim_start_matches('.').split('.').next().unwrap().to_string();
            let mut bystanders: Vec<String> = vec![format!("{}..tmp", first), format!("{}.tmp", first), format!("{}.tmp", stem)];
            if let Some(p) = stem.rfind('.') { if p > 0 { bystanders.push(format!("{}..tmp", &stem[..p])); } }
            bystanders.retain(|b| *b != format!("{}..tmp", stem));   // (the command's own temp name is not a bystander)
            bystanders.sort(); bystanders.dedup();
            for (k, b) in bystanders.iter().enumerate() { s.write(b, format!("bystander {}", k).as_bytes()); }
            let before = s.listing();
            let mut args5: Vec<String> = vec!["compress".into(), "-i".into(), "src.bin".into()];
            args5.extend(compress_args(&c));
            args5.push(name.into());
            let argv5: Vec<&str> = args5.iter().map(|x| x.as_str()).collect();
            let (code5, _) = s.bita(&argv5, None, &[]);
            st.count("clirt/odd-output-names");
            let after = s.listing();
            let mut expect = before.clone(); expect.push(name.to_string()); expect.sort();
            if code5 != 0 || s.read(name).unwrap_or_default() != archive { st.violation("C12", &format!("compress to `{}` gives another archive than to out.cba (or fails)", name), &replay); }
            if after != expect { st.violation("C16", &format!("compress to `{}`: directory went from {:?} to {:?}", name, before, after), &replay); }
            for (k, b) in bystanders.iter().enumerate() {
                if s.read(b).unwrap_or_default() != format!("bystander {}", k).as_bytes() { st.violation("C16", &format!("compress to `{}` changed or removed the unrelated file `{}`", name, b), &replay); }
                let _ = std::fs::remove_file(s.p(b));
            }
            let _ = std::fs::remove_file(s.p(name));
        }
        // C12: second run, input through a pipe, other buffering
        let mut args2: Vec<String> = match i % 3 { 0 => vec!["-v".into(), "compress".into()], 1 => vec!["compress".into(), "-vv".into()], _ => vec!["compress".into()] };
        args2.extend(compress_args(&c));
        args2.push("--buffered-chunks".into()); args2.push(format!("{}", rng.pick(&[1, 2, 5, 64])));
        args2.push("out2.cba".into());
        let argv2: Vec<&str> = args2.iter().map(|x| x.as_str()).collect();
        let (code2, _) = s.bita(&argv2, Some(&c.src), &[]);
        let archive2 = s.read("out2.cba").unwrap_or_default();
        if code2 != 0 || archive2 != archive { st.violation("C12", "CLI compress of the same input through a pipe / other buffering differs", &replay); }
        if archive.len() > 300 { st.nontrivial_key(desc.as_bytes()); }
        // model line (byte exact)
        let line = compress_line(&c, &archive).replacen("compress ", "compresscli ", 1);
        if !big || c.src.len() < 1_500_000 { lines.push((line, format!("OK {}", hex(&archive)))); }
        // C01: clone (local) reproduces the source
        // (onto a fresh path, or with --force-create over an existing file of other content and length; with and without
        // the final verification)
        let cargs: Vec<&str> = match i % 4 {
            0 => vec!["clone", "out.cba", "clone.bin"],
            1 => vec!["clone", "--verify-output", "out.cba", "clone.bin"],
            2 => { s.write("clone.bin", &vec![0xEEu8; c.src.len() + 123]); vec!["clone", "--force-create", "out.cba", "clone.bin"] }
            _ => { s.write("clone.bin", &vec![0x5Au8; c.src.len() / 2 + 1]); vec!["clone", "-f", "--verify-output", "out.cba", "clone.bin"] }
        };
        st.count(&format!("clirt/clone-onto/{}", ["fresh", "fresh+verify", "existing-longer", "existing-shorter+verify"][i % 4]));
        let (code3, log3) = s.bita(&cargs, None, &[]);
        let cl = s.read("clone.bin");
        if code3 != 0 || cl.as_deref() != Some(&c.src[..]) {
            st.violation("C01", &format!("clone of a compressed archive does not reproduce the source (exit {}): {}", code3, log3.lines().last().unwrap_or("")), &replay);
        }
        // C01 over http (well behaved server)
        if i % 3 == 0 {
            let srv = ScriptServer::start(archive.clone(), vec![]);
            let url = srv.url();
            let (code4, _) = s.bita(&["clone", &url, "clone2.bin"], None, &[]);
            let _ = srv.finish();
            if code4 != 0 || s.read("clone2.bin").as_deref() != Some(&c.src[..]) {
                st.violation("C01", "clone over http does not reproduce the source", &replay);
            }
        }
        let (code5, log5) = s.bita(&["info", "out.cba"], None, &[]);
        if code5 != 0 { st.violation("C01", "bita info fails on a fresh archive", &replay); }
        // C11: what was requested is what the reader reports back
        let mut want: Vec<(Vec<&str>, String)> = vec![
            (vec!["hash", "length"], format!("{}", c.hashlen)),
            (vec!["source", "checksum"], hex(&b2(&c.src))),
            (vec!["source", "size"], format!("{}", c.src.len())),
            (vec!["archive", "size"], format!("{}", archive.len())),
            (vec!["algorithm"], match c.cfg.algo { 'B' => "buzhash", 'R' => "rollsum", _ => "fixed" }.to_string()),
        ];
        if c.cfg.algo == 'F' { want.push((vec!["fixed", "size"], format!("{}", c.cfg.max))); } else {
            want.push((vec!["window"], format!("{}", c.cfg.win)));
            want.push((vec!["min"], format!("{}", c.cfg.min)));
            want.push((vec!["max"], format!("{}", c.cfg.max)));
            want.push((vec!["target"], format!("{}", 1u64 << (c.cfg.bits + 1))));
        }
        if c.comp.is_none() { want.push((vec!["compression"], "none".into())); }
        if c.meta.is_empty() { want.push((vec!["metadata"], "none".into())); } else {
            for (k, v) in &c.meta { want.push((vec!["metadata"], format!("{}({})", k, v.len()))); }
        }
        st.oracle_checks += 1;
        for (keys, val) in &want {
            if !info_has(&log5, keys, val) { st.violation("C11", &format!("bita info does not report {:?} as `{}`", keys, val), &replay); break; }
        }
        if let Some((t, l)) = c.comp {
            let line = log5.lines().find(|x| x.to_lowercase().contains("compression")).unwrap_or("").to_lowercase();
            let name = match t { 1 => "lzma", 2 => "zstd", _ => "brotli" };
            if !line.contains(name) || !line.split(|ch: char| !ch.is_ascii_digit()).any(|tk| tk == format!("{}", l)) { st.violation("C11", &format!("bita info reports the compression as `{}`, requested {} level {}", line.trim(), name, l), &replay); }
        }
        for (k, v) in &c.meta {
            let out = std::process::Command::new(bita_bin()).args(["info", "--metadata-key", k, "out.cba"]).current_dir(&s.dir).output();
            match out { Ok(o) if o.status.success() && o.stdout == *v => {} _ => { st.violation("C11", &format!("bita info --metadata-key {} does not return the stored value", k), &replay); break; } }
        }
    }, st, &mut out);
    out.finish();
}

/// `bita info` oracle, tolerant of wording: some line mentions all the key words (case-insensitive) and carries the value,
/// a number as a whole decimal token (`64 bytes`, `1.5 MiB (1572864 bytes)`), anything else as a lower-case substring
fn info_has(log: &str, keys: &[&str], value: &str) -> bool {
    let num = !value.is_empty() && value.bytes().all(|b| b.is_ascii_digit());
    log.lines().any(|l| {
        let ll = l.to_lowercase();
        keys.iter().all(|k| ll.contains(k)) && if num {
            ll.split(|c: char| !c.is_ascii_digit()).any(|t| t == value) && human_figure_ok(&ll, value)
        } else { ll.contains(&value.to_lowercase()) }
    })
}

/// when the exact byte count is preceded by a rounded figure with a binary unit (`1.5 mib (1572864 bytes)`), that figure
/// is the byte count in that unit (to the printed precision)
fn human_figure_ok(ll: &str, value: &str) -> bool {
    let pat = format!("({} bytes)", value);
    let Some(p) = ll.find(&pat) else { return true };
    let before: Vec<&str> = ll[..p].split_whitespace().collect();
    if before.len() < 2 { return true; }
    let unit = match before[before.len() - 1] { "kib" => 1024.0, "mib" => 1048576.0, "gib" => 1073741824.0, _ => return true };
    let Ok(fig) = before[before.len() - 2].parse::<f64>() else { return true };
    let exact = value.parse::<f64>().unwrap_or(0.0) / unit;
    (fig - exact).abs() <= 0.051 + exact * 1e-9
}

// ---------------------------------------------------------------------------------------------
fn edit(rng: &mut Rng, src: &[u8]) -> Vec<u8> {
    let mut v = src.to_vec();
    for _ in 0..rng.range(0, 5) {
        if v.is_empty() { break; }
        let a = rng.below(v.len() as u64) as usize;
        let l = rng.range(1, 400) as usize;
        match rng.below(4) {
            0 => { let ins: Vec<u8> = (0..l).map(|_| rng.next() as u8).collect(); v.splice(a..a, ins); }
            1 => { let b = (a + l).min(v.len()); v.drain(a..b); }
            2 => { let b = (a + l * 4).min(v.len()); let blk: Vec<u8> = v.drain(a..b).collect(); let p = rng.below(v.len() as u64 + 1) as usize; v.splice(p..p, blk); }
            _ => { let b = (a + l).min(v.len()); let blk: Vec<u8> = v[a..b].to_vec(); let p = rng.below(v.len() as u64 + 1) as usize; v.splice(p..p, blk); }
        }
    }
    v
}

/// the chunks (by full hash) the archive's chunker finds in a byte string
fn chunk_hashes(cfg: &Cfg, data: &[u8]) -> Vec<Vec<u8>> {
    crate::chunking::run_chunker(cfg, data, vec![]).map(|(c, _)| c.iter().map(|(_, d)| b2(d)).collect()).unwrap_or_default()
}

pub fn suite_cliclone(dir: &str, seed: u64, thorough: bool, st: &mut Stats) {
    let mut out = SuiteOut::new(dir, "cliclone");
    let n = if thorough { 300 } else { 40 };
    par_for(n, 12, |i, st, _lines| {
        let mut rng = Rng::new(seed ^ 0x92 ^ ((i as u64) << 20));
        let mut c = gen_cli_case(&mut rng, false);
        if c.src.len() < 200 { c.src = gen_data(&mut rng, 5000).0; }
        let s = Scn::new("cl", i as u64);
        s.write("src.bin", &c.src);
        let mut args: Vec<String> = vec!["compress".into(), "-i".into(), "src.bin".into()];
        args.extend(compress_args(&c));
        args.push("out.cba".into());
        let argv: Vec<&str> = args.iter().map(|x| x.as_str()).collect();
        let (code, _) = s.bita(&argv, None, &[]);
        if code != 0 { return; }
        let archive = s.read("out.cba").unwrap();
        let kind = *rng.pick(&["new", "existing", "existing", "blockdev"]);
        let prior = match rng.below(5) { 0 => vec![], 1 => gen_data(&mut rng, 3000).0, 2 => c.src.clone(), _ => edit(&mut rng, &c.src) };
        let mut prior = prior;
        if kind == "blockdev" { if prior.len() < c.src.len() { prior.resize(c.src.len() + rng.below(100) as usize, 0x5a); } }
        let nseeds = rng.below(3) as usize;
        let seeds: Vec<Vec<u8>> = (0..nseeds).map(|_| if rng.chance(2, 3) { edit(&mut rng, &c.src) } else { gen_data(&mut rng, 2000).0 }).collect();
        let stdin_seed = if rng.chance(1, 4) { Some(edit(&mut rng, &c.src)) } else { None };
        // an unreliable but honest server for some cases: failing transfers within the retry budget given on the
        // command line must not change anything but the number of requests
        let nfail = if rng.chance(1, 4) { rng.range(1, 3) as usize } else { 0 };
        let script: Vec<SItem> = if nfail == 0 { vec![] } else {
            let mut v: Vec<SItem> = (0..rng.range(nfail as u64, 6)).map(|_| SItem::Ok).collect();
            for _ in 0..nfail { let k = rng.below(v.len() as u64) as usize; v[k] = if rng.chance(1, 2) { SItem::Refuse } else { SItem::Cut(rng.below(200) as usize) }; }
            v
        };
        let nfail = script.iter().filter(|x| !matches!(x, SItem::Ok)).count();
        let srv = ScriptServer::start(archive.clone(), script);
        let url = srv.url();
        let mut cargs: Vec<String> = if rng.chance(1, 4) { vec!["-vv".into(), "clone".into()] } else { vec!["clone".into()] };
        if nfail > 0 { cargs.extend(["--http-retry-count".to_string(), format!("{}", nfail + rng.below(2) as usize), "--http-retry-delay".to_string(), "0".to_string()]); }
        if rng.chance(1, 2) { cargs.extend(["--buffered-chunks".to_string(), format!("{}", rng.pick(&[1, 2, 7, 32]))]); }
        if kind != "new" {
            s.write("out.bin", &prior);
            // (-f does not truncate a clone output: with or without it the old content is there to be reused)
            match rng.below(4) { 0 => cargs.extend(["--force-create".to_string(), "--seed-output".to_string()]), 1 => cargs.extend(["--seed-output".to_string(), "-f".to_string()]), _ => cargs.push("--seed-output".into()) }
        }
        for (k, sd) in seeds.iter().enumerate() { s.write(&format!("seed{}.bin", k), sd); cargs.push("--seed".into()); cargs.push(format!("seed{}.bin", k)); }
        if stdin_seed.is_some() { cargs.push("--seed".into()); cargs.push("-".into()); }
        // --verify-output hashes the whole device: only meaningful when the device has the source's size
        if rng.chance(1, 2) && (kind != "blockdev" || prior.len() == c.src.len()) { cargs.push("--verify-output".into()); }
        cargs.push(url.clone()); cargs.push("out.bin".into());
        let cargv: Vec<&str> = cargs.iter().map(|x| x.as_str()).collect();
        let env: Vec<(&str, &str)> = if kind == "blockdev" { vec![("BITA_VERIF_FAKE_BLOCK_DEV", "1")] } else { vec![] };
        let (code2, log2) = s.bita(&cargv, stdin_seed.as_deref(), &env);
        let reqs = srv.finish();
        st.evaluations += 1;
        st.oracle_checks += 3;
        st.count(&format!("cliclone/{}/seeds={}", kind, nseeds + stdin_seed.is_some() as usize));
        let replay = format!("cliclone kind={} {} prior={} seeds={} args={}", kind, c.cfg.line(), prior.len(), nseeds, cargs.join(" "));
        st.sample(replay.clone());
        st.nontrivial_key(replay.as_bytes());
        let got = s.read("out.bin").unwrap_or_default();
        let ok = if kind == "blockdev" { got.len() >= c.src.len() && got[..c.src.len()] == c.src[..] } else { got == c.src };
        if code2 != 0 || !ok {
            let what = format!("CLI clone ({}, {} seeds) does not reproduce the source (exit {}): {}", kind, nseeds + stdin_seed.is_some() as usize, code2, log2.lines().last().unwrap_or(""));
            // with seeds it is (also) a C02 matter, with an old output used in place (also) a C03 matter
            if kind == "new" || nseeds + stdin_seed.is_some() as usize > 0 { st.violation("C02", &what, &replay); }
            if kind != "new" { st.violation("C03", &what, &replay); }
            return;
        }
        // C06/C07: chunk data requests = maximal runs of the descriptors whose chunk is in no seed / prior output
        let hdr_len = { let ds = u64::from_le_bytes(archive[6..14].try_into().unwrap()); 14 + ds + 72 };
        let mut found: std::collections::HashSet<Vec<u8>> = std::collections::HashSet::new();
        if kind != "new" { for h in chunk_hashes(&c.cfg, &prior) { found.insert(h); } }
        for sd in seeds.iter().chain(stdin_seed.iter()) { for h in chunk_hashes(&c.cfg, sd) { found.insert(h); } }
        // descriptors from the archive by an independent parse
        let d = crate::archive::parse_dict(&archive[14..(hdr_len - 72) as usize]).unwrap();
        let (srcchunks, _) = crate::chunking::run_chunker(&c.cfg, &c.src, vec![]).unwrap();
        let mut full: BTreeMap<Vec<u8>, Vec<u8>> = BTreeMap::new(); // truncated -> full hash
        for (_, dd) in &srcchunks { let h = b2(dd); full.insert(h[..c.hashlen.min(64)].to_vec(), h); }
        let mut want: Vec<(u64, usize)> = vec![];
        for x in &d.descs {
            let fh = full.get(&x.checksum).cloned().unwrap_or_default();
            if !found.contains(&fh) { want.push((hdr_len + x.archive_offset, x.archive_size as usize)); }
        }
        let mut runs: Vec<(u64, u64)> = vec![];
        for (o, sz) in &want {
            match runs.last_mut() { Some(l) if l.0 + l.1 == *o => l.1 += *sz as u64, _ => runs.push((*o, *sz as u64)) }
        }
        let data_reqs: Vec<(u64, u64)> = reqs.iter().copied().filter(|(o, _)| *o >= hdr_len).collect();
        let hdr_reqs: Vec<(u64, u64)> = reqs.iter().copied().filter(|(o, _)| *o < hdr_len).collect();
        if nfail > 0 {
            // transfer retries aside: every chunk data request is an expected run or the rest of one (resume), every
            // run was asked for from its first byte, header reads are the two header ranges (possibly repeated)
            let ok_data = data_reqs.iter().all(|q| runs.iter().any(|r| q.0 >= r.0 && q.0 + q.1 == r.0 + r.1)) && runs.iter().all(|r| data_reqs.iter().any(|q| q.0 == r.0 && q.1 == r.1));
            let ok_hdr = hdr_reqs.iter().all(|q| *q == (0, 14) || *q == (14, hdr_len - 14)) && hdr_reqs.contains(&(0, 14)) && hdr_reqs.contains(&(14, hdr_len - 14));
            if !ok_data || !ok_hdr {
                st.violation("C06", &format!("with {} failing transfers: requests {} / {} do not fit the missing runs {}", nfail, log_str(&hdr_reqs), log_str(&data_reqs), log_str(&runs)), &replay);
            }
            st.count("cliclone/failing-transfers-within-retry-budget");
            return;
        }
        if data_reqs != runs {
            st.violation("C06", &format!("chunk data requested {} but missing chunks are {}", log_str(&data_reqs), log_str(&runs)), &replay);
            // C07: one request per maximal run of adjacent wanted chunks -- the requests overlap / repeat, or two of
            // them are adjacent (should have been one), or they are out of archive order
            let mut bad = false;
            for w in data_reqs.windows(2) { if w[0].0 + w[0].1 >= w[1].0 { bad = true; } }
            let covered: u64 = data_reqs.iter().map(|r| r.1).sum();
            let wanted: u64 = runs.iter().map(|r| r.1).sum();
            if bad || (covered == wanted && data_reqs.len() != runs.len()) {
                st.violation("C07", &format!("chunk data requests {} are not the maximal runs {}", log_str(&data_reqs), log_str(&runs)), &replay);
            }
        }
        if hdr_reqs != vec![(0, 14), (14, hdr_len - 14)] {
            st.violation("C06", &format!("besides chunk data the reads were {}", log_str(&hdr_reqs)), &replay);
        }
    }, st, &mut out);
    out.finish();
}

// ---------------------------------------------------------------------------------------------
pub fn suite_clirefuse(dir: &str, seed: u64, _thorough: bool, st: &mut Stats) {
    let mut out = SuiteOut::new(dir, "clirefuse");
    let mut rng = Rng::new(seed ^ 0x93);
    // one valid archive
    let base = Scn::new("rfbase", 0);
    // a source with repeated content (its unique chunks are much smaller than the source itself)
    let blk = gen_data(&mut rng, 1000).0;
    // ... and with a run of zeros spanning several chunks in the middle (chunks an output may seem to hold already)
    let mut src: Vec<u8> = (0..2).flat_map(|_| blk.iter().copied()).collect();
    src.extend(std::iter::repeat(0u8).take(3000));
    src.extend((0..2).flat_map(|_| blk.iter().copied()));
    base.write("src.bin", &src);
    let (code, _) = base.bita(&["compress", "-i", "src.bin", "--min-chunk-size", "64", "--avg-chunk-size", "256", "--max-chunk-size", "1024", "--hash-length", "8", "a.cba"], None, &[]);
    assert_eq!(code, 0);
    let archive = base.read("a.cba").unwrap();
    // (a short chunk hash length: an expected header checksum must still be given in full, 64 bytes)
    let hc = hex(&archive[archive.len().min(14 + u64::from_le_bytes(archive[6..14].try_into().unwrap()) as usize + 8)..][..64]);
    let mut cases: Vec<(String, String, String, String)> = vec![]; // (cmd, outkind, flag, archivekind)
    for cmd in ["clone", "compress"] {
        for outkind in ["absent", "regular", "regular-empty", "regular-long", "blockdev-small", "blockdev-mid", "blockdev-big"] {
            for flag in ["none", "force", "seed-output", "verify", "verify-force", "seed-self"] {
                for ak in ["valid", "invalid", "hc-flip2", "hc-swap", "mismatch", "prefix-pin", "prefix-pin-63", "empty-pin", "match-pin"] {
                    if cmd == "compress" && (flag == "seed-output" || flag == "seed-self" || flag.starts_with("verify") || ak != "valid" || outkind.starts_with("blockdev") || outkind == "regular-long") { continue; }
                    if flag.starts_with("verify") && outkind == "blockdev-big" { continue; } // whole-device checksum: see DESIGN
                    cases.push((cmd.into(), outkind.into(), flag.into(), ak.into()));
                }
            }
        }
    }
    let cases = &cases;
    let archive = &archive;
    let src = &src;
    let hc = &hc;
    par_for(cases.len(), 12, |i, st, lines| {
        let (cmd, outkind, flag, ak) = &cases[i];
        let s = Scn::new("rf", i as u64);
        let prior: Vec<u8> = match outkind.as_str() { "absent" => vec![], "blockdev-small" => vec![0x11; 100], "blockdev-mid" => vec![0x44; src.len() - 300], "blockdev-big" => vec![0x22; src.len() + 50], "regular-empty" => vec![], "regular-long" => vec![0x33; src.len() + 777], _ => b"precious existing content".to_vec() };
        if outkind != "absent" { s.write("out.bin", &prior); }
        let mut args: Vec<String> = vec![cmd.clone()];
        let mut env: Vec<(&str, &str)> = vec![];
        if outkind.starts_with("blockdev") { env.push(("BITA_VERIF_FAKE_BLOCK_DEV", "1")); }
        match flag.as_str() {
            "force" => args.push("--force-create".into()),
            "seed-output" => args.push("--seed-output".into()),
            "verify" => args.push("--verify-output".into()),
            "verify-force" => { args.push("--verify-output".into()); args.push("--force-create".into()); }
            "seed-self" => { args.push("--seed".into()); args.push("out.bin".into()); }
            _ => {}
        }
        if cmd == "clone" {
            match ak.as_str() {
                "invalid" => s.write("a.cba", b"this is not an archive at all, not even close........................"),
                // the stored header checksum altered so that the differences cancel under any byte-wise sum or xor: the same
                // bit flipped in two of its bytes / two different bytes exchanged
                "hc-flip2" | "hc-swap" => {
                    let mut a = archive.clone();
                    let hp = 14 + u64::from_le_bytes(a[6..14].try_into().unwrap()) as usize + 8;
                    if ak == "hc-flip2" { a[hp + 3] ^= 0x10; a[hp + 41] ^= 0x10; }
                    else { let j = (1..64).find(|j| a[hp + j] != a[hp]).unwrap_or(1); a.swap(hp, hp + j); }
                    s.write("a.cba", &a)
                }
                _ => s.write("a.cba", archive),
            }
            match ak.as_str() {
                "mismatch" => { args.push("--verify-header".into()); let mut w = hc.clone(); w.replace_range(0..2, if &hc[0..2] == "00" { "01" } else { "00" }); args.push(w); }
                "prefix-pin" => { args.push("--verify-header".into()); args.push(hc[..16].to_string()); }
                "prefix-pin-63" => { args.push("--verify-header".into()); args.push(hc[..126].to_string()); }
                "empty-pin" => { args.push("--verify-header".into()); args.push("".into()); }
                "match-pin" => { args.push("--verify-header".into()); args.push(hc.clone()); }
                _ => {}
            }
            args.push("a.cba".into()); args.push("out.bin".into());
        } else {
            s.write("in.bin", src);
            args.push("-i".into()); args.push("in.bin".into()); args.push("out.bin".into());
        }
        let argv: Vec<&str> = args.iter().map(|x| x.as_str()).collect();
        let before = s.listing();
        let (code, log) = s.bita(&argv, None, &env);
        let after = s.listing();
        let now = s.read("out.bin");
        st.evaluations += 1;
        st.oracle_checks += 1;
        st.count(&format!("clirefuse/{}/{}", cmd, if code == 0 { "proceeded" } else { "refused" }));
        let line = format!("cmd {} {} {} {}", cmd, outkind, flag, ak);
        st.nontrivial_key(line.as_bytes());
        st.sample(format!("{} -> exit {}", line, code));
        // expectation (C14): which cells are refusals
        let exists = outkind != "absent";
        let refuse_exists = exists && (flag == "none" || flag == "verify" || flag == "seed-self");
        let refuse_archive = cmd == "clone" && (ak == "invalid" || ak.starts_with("hc-") || ak == "mismatch" || ak.starts_with("prefix-pin") || ak == "empty-pin");
        let refuse_small = cmd == "clone" && (outkind == "blockdev-small" || outkind == "blockdev-mid") && flag != "none" && flag != "verify" && flag != "seed-self" && !refuse_archive;
        let refused = refuse_exists || refuse_archive || refuse_small;
        let state = match (&now, exists) {
            (None, false) => "absent",
            (None, true) => "removed",
            (Some(d), true) if *d == prior => "unchanged",
            (Some(_), true) => "modified",
            (Some(_), false) => "created",
        };
        if cmd == "clone" && code == 0 && !outkind.starts_with("blockdev") && now.as_deref() != Some(&src[..]) {
            st.violation("C01", &format!("cmd {} {} {} {}: the clone exits 0 but the output is not exactly the source ({} bytes, source {})", cmd, outkind, flag, ak, now.as_ref().map(|d| d.len()).unwrap_or(0), src.len()), &line);
        }
        let extra: Vec<&String> = after.iter().filter(|f| !before.contains(f) && f.as_str() != "out.bin").collect();
        if refused {
            if code == 0 { st.violation("C14", &format!("{}: operation should be refused but exit status is 0", line), &line); }
            // (an archive that is not what the user pinned, or not an archive at all, was cloned)
            if code == 0 && refuse_archive { st.violation("C04", &format!("{}: the clone proceeds although the archive is invalid or its header checksum is not the expected one", line), &line); }
            if exists && state != "unchanged" { st.violation("C14", &format!("{}: refused but the existing output is {}", line, state), &line); }
            if !exists && refuse_archive && state != "absent" { st.violation("C14", &format!("{}: refused for the archive/header but an output file was created", line), &line); }
        } else if code != 0 {
            st.violation("C14", &format!("{}: operation that should proceed failed: {}", line, log.lines().last().unwrap_or("")), &line);
        }
        if !extra.is_empty() { st.violation("C16", &format!("{}: extra files left: {:?}", line, extra), &line); }
        lines.push((line, format!("{} {}", if code == 0 { "OK" } else { "FAIL" }, state)));
    }, st, &mut out);
    // the meaning the command model gives to an open of the output (`open_output` in Model/Cmd.v: create, create_new,
    // truncate on an absent / existing path) against the OpenOptions the commands use (tokio's are std's): all flag
    // combinations, not only those the commands can reach
    for cr in [false, true] { for cn in [false, true] { for tr in [false, true] {
        for outkind in ["absent", "regular", "regular-empty"] {
            let s = Scn::new("oo", (cr as u64) * 4 + (cn as u64) * 2 + tr as u64);
            let prior: Vec<u8> = if outkind == "regular" { vec![9, 9, 9] } else { vec![] };
            if outkind != "absent" { s.write("out.bin", &prior); }
            let r = std::fs::OpenOptions::new().write(true).create(cr).create_new(cn).truncate(tr).open(s.p("out.bin"));
            let ok = r.is_ok();
            drop(r);
            let now = s.read("out.bin");
            let state = match (&now, outkind != "absent") {
                (None, false) => "absent".to_string(),
                (None, true) => "removed".to_string(),
                (Some(d), true) if *d == prior => "unchanged".to_string(),
                (Some(d), true) => format!("modified:{}", d.len()),
                (Some(d), false) => format!("created:{}", d.len()),
            };
            st.evaluations += 1;
            st.count("openopts");
            out.push(&format!("openopts {} {} {} {}", cr as u8, cn as u8, tr as u8, outkind), &format!("{} {}", if ok { "OK" } else { "FAIL" }, state));
        }
    } } }
    out.finish();
}

// ---------------------------------------------------------------------------------------------
/// parse an strace log: write-side effects on paths inside the scenario directory
/// Suite `clicorrupt` (C04): the bita binary itself on damaged archives -- truncated, bit-flipped, regions swapped or
/// overwritten, bytes removed -- from a local file and over http, with and without seeds. Exit status 0 is only
/// acceptable together with an output identical to the source; local cases are also run through the model.
pub fn suite_clicorrupt(dir: &str, seed: u64, thorough: bool, st: &mut Stats) {
    let mut out = SuiteOut::new(dir, "clicorrupt");
    let narch = if thorough { 16 } else { 3 };
    let per = if thorough { 60 } else { 36 };
    par_for(narch * per, 12, |i, st, lines| {
        let ai = i / per;
        let mi = i % per;
        // the archive of this group (deterministic in ai)
        let mut rng = Rng::new(seed ^ 0x95 ^ ((ai as u64) << 24));
        let mut c = gen_cli_case(&mut rng, false);
        if c.src.len() < 600 { c.src = gen_data(&mut rng, 4000).0; }
        let s = Scn::new("cc", i as u64);
        s.write("src.bin", &c.src);
        let mut args: Vec<String> = vec!["compress".into(), "-i".into(), "src.bin".into()];
        args.extend(compress_args(&c));
        args.push("good.cba".into());
        let argv: Vec<&str> = args.iter().map(|x| x.as_str()).collect();
        if s.bita(&argv, None, &[]).0 != 0 { return; }
        let good = s.read("good.cba").unwrap();
        let hlen = 14 + u64::from_le_bytes(good[6..14].try_into().unwrap()) as usize + 72;
        let mut rng = Rng::new(seed ^ 0x96 ^ ((i as u64) << 20));
        let mut m = good.clone();
        let what = match mi % 9 {
            0 => { m.truncate(m.len() - 1); "trunc-1" }
            1 => { let l = rng.range(hlen as u64, m.len() as u64) as usize; m.truncate(l); "trunc-data" }
            2 => { let l = rng.below(hlen as u64) as usize; m.truncate(l); "trunc-header" }
            3 => { if m.len() > hlen { let k = rng.range(hlen as u64 * 8, m.len() as u64 * 8 - 1) as usize; m[k / 8] ^= 1 << (k % 8); } "bitflip-data" }
            4 => { let k = rng.below(hlen as u64 * 8) as usize; m[k / 8] ^= 1 << (k % 8); "bitflip-header" }
            5 => { if m.len() > hlen + 10 { let a = rng.range(hlen as u64, m.len() as u64 - 5) as usize; let b = rng.range(hlen as u64, m.len() as u64 - 5) as usize; for j in 0..4 { m.swap(a + j, b + j); } } "swap" }
            6 => { let a = rng.below(m.len() as u64) as usize; let e = (a + rng.range(1, 30) as usize).min(m.len()); for j in a..e { m[j] = rng.next() as u8; } "overwrite" }
            7 => { if m.len() > hlen + 2 { let a = rng.range(hlen as u64, m.len() as u64 - 1) as usize; m.remove(a); } "deletion" }
            _ => { let keep = rng.range(hlen as u64, m.len() as u64) as usize; for j in keep..m.len() { m[j] = 0; } "zeroed-tail" }
        };
        s.write("bad.cba", &m);
        let via_http = rng.chance(1, 3);
        let with_seed = rng.chance(1, 3);
        let verify = rng.chance(1, 5);
        let mut cargs: Vec<String> = vec!["clone".into()];
        if with_seed { s.write("seed.bin", &edit(&mut rng, &c.src)); cargs.push("--seed".into()); cargs.push("seed.bin".into()); }
        if verify { cargs.push("--verify-output".into()); }
        let srv = if via_http { Some(ScriptServer::start(m.clone(), vec![])) } else { None };
        cargs.push(match &srv { Some(x) => x.url(), None => "bad.cba".into() });
        cargs.push("out.bin".into());
        let cargv: Vec<&str> = cargs.iter().map(|x| x.as_str()).collect();
        let (code, log) = s.bita(&cargv, None, &[]);
        if let Some(x) = srv { let _ = x.finish(); }
        st.evaluations += 1;
        st.oracle_checks += 1;
        let got = s.read("out.bin");
        let replay = format!("clicorrupt {} {} args={} src={} archive={}", what, c.cfg.line(), cargs.join(" "), hex(&c.src), hex(&m));
        let identical = got.as_deref() == Some(&c.src[..]);
        st.count(&format!("clicorrupt/{}/{}/{}", what, if via_http { "http" } else { "file" }, if code == 0 { "ok-identical" } else { "rejected" }));
        if code != 0 { st.nontrivial_key(replay.as_bytes()); }
        if code == 0 && !identical {
            st.violation("C04", &format!("{}: bita clone exited 0 on a damaged archive but the output differs from the source", what), &replay);
        }
        if code != 0 && code != 1 {
            st.violation("C15", &format!("{}: bita clone ended with status {} ({})", what, code, log.lines().last().unwrap_or("")), &replay);
        }
        if mi == 0 { st.sample(format!("clicorrupt {} archive={}B header={}B", c.cfg.line(), good.len(), hlen)); }
        // inspecting the same bytes: `bita info` ends with status 0 exactly when the reader model opens them
        let (icode, ilog) = s.bita(&["info", "bad.cba"], None, &[]);
        st.oracle_checks += 1;
        if icode != 0 && icode != 1 {
            st.violation("C15", &format!("{}: bita info ended with status {} ({})", what, icode, ilog.lines().last().unwrap_or("")), &replay);
        }
        if m.len() < 40_000 {
            let ds = if m.len() >= 14 { u64::from_le_bytes(m[6..14].try_into().unwrap()) } else { 0 };
            let hh = if m.len() >= 14 && (14u128 + ds as u128 + 72) <= m.len() as u128 { hex(&b2(&m[..14 + ds as usize + 8])) } else { "-".to_string() };
            lines.push((format!("tryinitok {} {}", hex(&m), hh), if icode == 0 { "OK".into() } else { "INVALID".into() }));
        }
        // the model on the same bytes (cases without a seed: a seed may supply the damaged chunk)
        if !via_http && !with_seed && m.len() < 40_000 {
            if let Some(al) = crate::tamper::aclone_line(&m) {
                lines.push((al, if code == 0 { format!("OK {}", hex(&got.unwrap_or_default())) } else { "ERR".into() }));
            }
        }
    }, st, &mut out);
    out.finish();
}

fn trace_effects(log: &str, dir: &Path) -> Vec<String> {
    let mut eff: Vec<String> = vec![];
    let d = dir.to_string_lossy().to_string();
    for l in log.lines() {
        // `strace -f -o` prefixes every line with the pid, padded with spaces
        let l = match l.find(' ') { Some(p) if l[..p].chars().all(|c| c.is_ascii_digit()) => l[p + 1..].trim_start(), _ => l.trim_start() };
        let name = l.split('(').next().unwrap_or("");
        if !["open", "openat", "creat", "unlink", "unlinkat", "rename", "renameat", "renameat2", "truncate", "mkdir", "mkdirat", "rmdir", "link", "linkat", "symlink", "symlinkat"].contains(&name) { continue; }
        if l.contains("= -1 ") && name != "openat" && name != "open" { continue; }
        // path argument(s)
        let paths: Vec<&str> = l.split('"').enumerate().filter(|(i, _)| i % 2 == 1).map(|(_, p)| p).collect();
        for p in paths {
            let rel = if let Some(r) = p.strip_prefix(&format!("{}/", d)) { r.to_string() } else if !p.starts_with('/') { p.to_string() } else { continue };
            if name == "open" || name == "openat" || name == "creat" {
                let w = l.contains("O_WRONLY") || l.contains("O_RDWR") || l.contains("O_CREAT") || l.contains("O_TRUNC") || name == "creat";
                if !w { continue; }
                let failed = l.contains("= -1 ");
                let mut fl = vec![];
                for f in ["O_CREAT", "O_EXCL", "O_TRUNC"] { if l.contains(f) { fl.push(f); } }
                eff.push(format!("openw:{}:{}{}", rel, fl.join("|"), if failed { ":failed" } else { "" }));
            } else {
                eff.push(format!("{}:{}", name.trim_end_matches("at").trim_end_matches("at2"), rel));
            }
        }
    }
    eff.sort();
    eff.dedup();
    eff
}

pub fn suite_clitrace(dir: &str, seed: u64, thorough: bool, st: &mut Stats) {
    let mut out = SuiteOut::new(dir, "clitrace");
    let mut rng = Rng::new(seed ^ 0x94);
    let base = Scn::new("trbase", 0);
    let src = gen_data(&mut rng, 20000).0;
    base.write("src.bin", &src);
    let (code, _) = base.bita(&["compress", "-i", "src.bin", "--min-chunk-size", "64", "--avg-chunk-size", "512", "--max-chunk-size", "4096", "a.cba"], None, &[]);
    assert_eq!(code, 0);
    let archive = base.read("a.cba").unwrap();
    let modes: Vec<&str> = vec!["plain", "seedfile", "stdin", "inplace", "http", "verify", "inplace-seed-verify", "compress", "compress-stdin", "compress-force", "compress-unlink-fails"];
    let reps = if thorough { 4 } else { 1 };
    let archive = &archive;
    let src = &src;
    let modes = &modes;
    par_for(modes.len() * reps, 10, |i, st, lines| {
        let mode = modes[i % modes.len()];
        let mut rng = Rng::new(seed ^ 0x95 ^ ((i as u64) << 16));
        let s = Scn::new("tr", i as u64);
        s.write("a.cba", archive);
        let seed_data = edit(&mut rng, src);
        s.write("seed.bin", &seed_data);
        let mut args: Vec<String> = vec!["-f".into(), "-o".into(), "trace.txt".into(), "-e".into(),
            "trace=open,openat,creat,unlink,unlinkat,rename,renameat,renameat2,truncate,mkdir,mkdirat,rmdir,link,linkat,symlink,symlinkat".into(), bita_bin()];
        let mut stdin: Option<Vec<u8>> = None;
        let mut srv = None;
        let mut expect: Vec<String> = vec![];
        if mode == "compress-unlink-fails" {
            // the removal of the temporary chunk file fails: the command must not report success with the temp file left
            s.write("in.bin", src);
            let a: Vec<&str> = vec!["-f", "-o", "/dev/null", "-e", "trace=unlink,unlinkat", "-e", "inject=unlink,unlinkat:error=EPERM"];
            let bin = bita_bin();
            let mut a2 = a.clone(); a2.extend([bin.as_str(), "compress", "-i", "in.bin", "new.cba"]);
            let before = s.listing();
            let (code, log) = s.run("strace", &a2, None, &[]);
            let after = s.listing();
            let newfiles: Vec<String> = after.iter().filter(|f| !before.contains(f)).cloned().collect();
            st.evaluations += 1;
            st.oracle_checks += 1;
            st.count("clitrace/compress-unlink-fails");
            let line = format!("trace {}", mode);
            if code == 0 && newfiles != vec!["new.cba".to_string()] {
                st.violation("C16", &format!("compress exits 0 although removing its temporary file failed; new files {:?}", newfiles), &line);
            }
            if code != 0 && code != 1 { st.violation("C15", &format!("compress with a failing unlink ended with status {}: {}", code, log.lines().last().unwrap_or("")), &line); }
            return;
        }
        match mode {
            "plain" => { args.extend(["clone", "a.cba", "out.bin"].map(String::from)); expect.push("openw:out.bin:O_CREAT|O_EXCL".into()); }
            "seedfile" => { args.extend(["clone", "--seed", "seed.bin", "a.cba", "out.bin"].map(String::from)); expect.push("openw:out.bin:O_CREAT|O_EXCL".into()); }
            "stdin" => { args.extend(["clone", "--seed", "-", "a.cba", "out.bin"].map(String::from)); stdin = Some(seed_data.clone()); expect.push("openw:out.bin:O_CREAT|O_EXCL".into()); }
            "inplace" => { s.write("out.bin", &seed_data); args.extend(["clone", "--seed-output", "a.cba", "out.bin"].map(String::from)); expect.push("openw:out.bin:O_CREAT".into()); }
            "http" => { let sv = ScriptServer::start(archive.clone(), vec![]); args.extend(["clone".to_string(), sv.url(), "out.bin".to_string()]); srv = Some(sv); expect.push("openw:out.bin:O_CREAT|O_EXCL".into()); }
            "verify" => { args.extend(["clone", "--verify-output", "--force-create", "a.cba", "out.bin"].map(String::from)); expect.push("openw:out.bin:O_CREAT".into()); }
            "inplace-seed-verify" => { s.write("out.bin", &seed_data); args.extend(["clone", "--seed-output", "--seed", "seed.bin", "--verify-output", "a.cba", "out.bin"].map(String::from)); expect.push("openw:out.bin:O_CREAT".into()); }
            "compress" => { s.write("in.bin", src); args.extend(["compress", "-i", "in.bin", "new.cba"].map(String::from));
                expect.extend(["openw:new..tmp:O_CREAT|O_TRUNC".to_string(), "openw:new.cba:O_CREAT|O_EXCL".to_string(), "unlink:new..tmp".to_string()]); }
            "compress-stdin" => { stdin = Some(src.clone()); args.extend(["compress", "new.cba"].map(String::from));
                expect.extend(["openw:new..tmp:O_CREAT|O_TRUNC".to_string(), "openw:new.cba:O_CREAT|O_EXCL".to_string(), "unlink:new..tmp".to_string()]); }
            _ => { s.write("in.bin", src); s.write("new.cba", b"old"); args.extend(["compress", "--force-create", "-i", "in.bin", "new.cba"].map(String::from));
                expect.extend(["openw:new..tmp:O_CREAT|O_TRUNC".to_string(), "openw:new.cba:O_CREAT|O_TRUNC".to_string(), "unlink:new..tmp".to_string()]); }
        }
        let before = s.listing();
        let argv: Vec<&str> = args.iter().map(|x| x.as_str()).collect();
        let (code, log) = s.run("strace", &argv, stdin.as_deref(), &[]);
        if let Some(sv) = srv { let _ = sv.finish(); }
        let tr = s.read("trace.txt").map(|b| String::from_utf8_lossy(&b).to_string()).unwrap_or_default();
        let mut eff = trace_effects(&tr, &s.dir);
        eff.retain(|e| !e.contains("trace.txt"));
        expect.sort();
        let mut after = s.listing();
        after.retain(|f| f != "trace.txt");
        st.evaluations += 1;
        st.oracle_checks += 2;
        st.count(&format!("clitrace/{}", mode));
        let line = format!("trace {}", mode);
        st.nontrivial_key(format!("{}{}", line, i).as_bytes());
        st.sample(format!("{} -> {:?}", line, eff));
        if code != 0 { st.violation("C16", &format!("{}: command failed under strace: {}", mode, log.lines().last().unwrap_or("")), &line); return; }
        if eff != expect {
            st.violation("C16", &format!("{}: write-side file effects {:?}, expected {:?}", mode, eff, expect), &line);
        }
        let newfiles: Vec<&String> = after.iter().filter(|f| !before.contains(f)).collect();
        let want_new: Vec<String> = if mode.starts_with("compress") { if mode == "compress-force" { vec![] } else { vec!["new.cba".into()] } } else if mode.starts_with("inplace") { vec![] } else { vec!["out.bin".into()] };
        if newfiles.iter().map(|x| x.to_string()).collect::<Vec<_>>() != want_new {
            st.violation("C16", &format!("{}: new files {:?}, expected {:?}", mode, newfiles, want_new), &line);
        }
        lines.push((line, eff.join(" ")));
    }, st, &mut out);
    out.finish();
}

// ---------------------------------------------------------------------------------------------
/// the file operations a traced process made on the file `name` (opened for writing): the writes as
/// (offset, length) in order of completion and the lengths passed to ftruncate. The cursor is followed through
/// lseek / read / write results; `strace -f` splits calls that overlap in time into `<unfinished ...>` /
/// `<... resumed>` pairs, which are joined per pid first.
fn traced_writes(log: &str, name: &str) -> Result<(Vec<(u64, u64)>, Vec<u64>), String> {
    let mut pending: std::collections::HashMap<String, String> = Default::default();
    let mut fd: Option<String> = None;
    let mut pos = 0u64;
    let mut writes = vec![];
    let mut truncs = vec![];
    for raw in log.lines() {
        let (pid, l) = match raw.find(' ') { Some(p) if raw[..p].chars().all(|c| c.is_ascii_digit()) => (raw[..p].to_string(), raw[p + 1..].trim_start()), _ => ("0".to_string(), raw.trim_start()) };
        let full: String = if let Some(head) = l.strip_suffix("<unfinished ...>") { pending.insert(pid, head.trim_end().to_string()); continue; }
            else if l.starts_with("<... ") { match (pending.remove(&pid), l.find("resumed>")) { (Some(h), Some(p)) => format!("{}{}", h, &l[p + 8..]), _ => continue } }
            else { l.to_string() };
        let l = full.as_str();
        let call = l.split('(').next().unwrap_or("");
        let res = match l.rfind(" = ") { Some(p) => l[p + 3..].split(' ').next().unwrap_or(""), None => continue };
        let arg0 = l.splitn(2, '(').nth(1).unwrap_or("").split(|c| c == ',' || c == ')').next().unwrap_or("").trim().to_string();
        if call == "openat" || call == "open" {
            let path = l.split('"').nth(1).unwrap_or("");
            let is_it = path == name || path.ends_with(&format!("/{}", name));
            if is_it && (l.contains("O_WRONLY") || l.contains("O_RDWR")) && !res.starts_with('-') { fd = Some(res.to_string()); pos = 0; }
            continue;
        }
        if fd.as_deref() != Some(arg0.as_str()) { continue; }
        let n: i64 = res.parse().unwrap_or(-1);
        match call {
            "lseek" => { if n >= 0 { pos = n as u64; } }
            "read" => { if n > 0 { pos += n as u64; } }
            "write" => { if n > 0 { writes.push((pos, n as u64)); pos += n as u64; } else if n < 0 { return Err(format!("failed write: {}", l)); } }
            "pwrite64" => { let off: u64 = l.rsplitn(2, ", ").next().unwrap_or("").split(')').next().unwrap_or("").trim().parse().map_err(|_| format!("pwrite offset: {}", l))?; if n > 0 { writes.push((off, n as u64)); } }
            "pread64" => {}
            "ftruncate" => { let len: u64 = l.splitn(2, ", ").nth(1).unwrap_or("").split(')').next().unwrap_or("").trim().parse().map_err(|_| format!("ftruncate length: {}", l))?; if n == 0 { truncs.push(len); } }
            "close" => { fd = None; }
            _ => {}
        }
    }
    Ok((writes, truncs))
}

/// Suite `cliwrites` (C13, C03, C02): the write system calls of `bita clone` on its output file (strace), for old
/// outputs that share, duplicate, permute or already hold chunks of the source, with --seed-output and seed files,
/// against the write list of Model/CloneBytes.v; and the write-economy predicate on the observed calls.
pub fn suite_cliwrites(dir: &str, seed: u64, thorough: bool, st: &mut Stats) {
    let mut out = SuiteOut::new(dir, "cliwrites");
    let n = if thorough { 400 } else { 48 };
    par_for(n, 12, |i, st, lines| {
        let mut rng = Rng::new(seed ^ 0x97 ^ ((i as u64) << 20));
        let mut c = gen_cli_case(&mut rng, false);
        // sources with repeated blocks (a chunk at several offsets) half of the time
        let base = gen_data(&mut rng, 3000).0;
        if c.src.len() < 400 || c.src.len() > 30_000 || rng.chance(1, 2) {
            let blk: Vec<u8> = (0..rng.range(200, 900)).map(|_| rng.next() as u8).collect();
            let mut v = vec![];
            for part in 0..rng.range(2, 6) { if part % 2 == 0 { v.extend_from_slice(&blk); } else { let a = rng.below(base.len() as u64 / 2) as usize; v.extend_from_slice(&base[a..a + rng.range(100, 1200) as usize]); } }
            c.src = v;
        }
        // half of the cases: compressible data stored compressed (stored size < chunk size), content-defined chunks of
        // varying size -- what the planner must never confuse is the size of a chunk in the source and in the archive
        if i % 2 == 1 {
            c.comp = Some((*rng.pick(&[3u32, 2, 1]), 3));
            c.cfg = Cfg { algo: *rng.pick(&['R', 'B']), bits: rng.range(5, 8) as u32, min: 32, max: 2000, win: 16 };
            let words: Vec<Vec<u8>> = (0..40).map(|_| (0..rng.range(2, 9)).map(|_| b"etaoinshrdlu "[rng.below(13) as usize]).collect()).collect();
            let mut v = vec![];
            while v.len() < 6000 { let w: &Vec<u8> = &words[rng.below(words.len() as u64) as usize]; v.extend_from_slice(w); }
            c.src = v;
        }
        let compressible = i % 2 == 1;
        // fixed-size chunks: often a source that is a whole number of chunks, so that an old output which starts with
        // the source (kinds 1 and 2 below) holds every chunk in place, the last one included
        if c.cfg.algo == 'F' && c.src.len() >= c.cfg.max as usize && rng.chance(1, 2) { let keep = c.src.len() / c.cfg.max as usize * c.cfg.max as usize; c.src.truncate(keep); }
        let s = Scn::new("cw", i as u64);
        s.write("src.bin", &c.src);
        let mut args: Vec<String> = vec!["compress".into(), "-i".into(), "src.bin".into()];
        args.extend(compress_args(&c));
        args.push("a.cba".into());
        let argv: Vec<&str> = args.iter().map(|x| x.as_str()).collect();
        if s.bita(&argv, None, &[]).0 != 0 { return; }
        let archive = s.read("a.cba").unwrap();
        let prior: Vec<u8> = match if compressible { 3 + rng.below(2) * 6 } else { rng.below(8) } {
            0 => vec![],
            9 => { let h = c.src.len() / 2; let mut v = c.src[h..].to_vec(); v.extend_from_slice(&c.src[..h]); v }   // halves swapped
            1 => c.src.clone(),
            2 => { let mut v = c.src.clone(); for _ in 0..rng.range(1, 2000) { v.push(rng.next() as u8); } v }       // longer: chunks beyond the new size
            3 => { let k = rng.below(c.src.len() as u64 + 1) as usize; let mut v = c.src[k..].to_vec(); v.extend_from_slice(&c.src[..k]); v }  // rotated
            4 => { let mut v: Vec<u8> = (0..rng.range(1, 600)).map(|_| rng.next() as u8).collect(); v.extend_from_slice(&c.src); v }          // shifted right
            _ => edit(&mut rng, &c.src),
        };
        let inplace = !prior.is_empty();
        let seeds: Vec<Vec<u8>> = (0..rng.below(3)).map(|_| if rng.chance(1, 4) { gen_data(&mut rng, 500).0 } else { edit(&mut rng, &c.src) }).collect();
        let mut cargs: Vec<String> = vec!["-f".into(), "-s".into(), "0".into(), "-o".into(), "trace.txt".into(), "-e".into(),
            "trace=open,openat,lseek,read,write,pread64,pwrite64,ftruncate,close".into(), bita_bin(), "clone".into()];
        if inplace { s.write("out.bin", &prior); cargs.push("--seed-output".into()); }
        for (k, sd) in seeds.iter().enumerate() { s.write(&format!("seed{}.bin", k), sd); cargs.push("--seed".into()); cargs.push(format!("seed{}.bin", k)); }
        cargs.push("a.cba".into()); cargs.push("out.bin".into());
        let cargv: Vec<&str> = cargs.iter().map(|x| x.as_str()).collect();
        let (code, log) = s.run("strace", &cargv, None, &[]);
        let tr = s.read("trace.txt").map(|b| String::from_utf8_lossy(&b).to_string()).unwrap_or_default();
        st.evaluations += 1;
        st.oracle_checks += 3;
        let replay = format!("cliwrites {} prior={} inplace={} seeds={:?} src={} priorhex={}", c.cfg.line(), prior.len(), inplace, seeds.iter().map(|x| x.len()).collect::<Vec<_>>(), hex(&c.src), hex(&prior));
        let got = s.read("out.bin").unwrap_or_default();
        if code != 0 || got != c.src {
            st.violation(if inplace { "C03" } else { "C02" }, &format!("bita clone under strace does not reproduce the source (exit {}): {}", code, log.lines().last().unwrap_or("")), &replay);
            if let Ok((ws, _)) = traced_writes(&tr, "out.bin") {
                for (o, l) in ws {
                    let (a, e) = (o as usize, (o + l) as usize);
                    if e > c.src.len() || e > got.len() || got[a..e] != c.src[a..e] {
                        st.violation("C13", &format!("the {} bytes written at {} are not the source's bytes at that offset", l, o), &replay);
                        break;
                    }
                }
            }
            return;
        }
        let (writes, truncs) = match traced_writes(&tr, "out.bin") { Ok(x) => x, Err(e) => { st.violation("C13", &format!("trace of the output file not understood: {}", e), &replay); return; } };
        st.count(&format!("cliwrites/prior={}/seeds={}/writes={}", if prior.is_empty() { "none" } else if prior == c.src { "identical" } else if prior.len() > c.src.len() { "longer" } else { "other" }, seeds.len(),
            match writes.len() { 0 => "0", 1 => "1", 2..=9 => "2-9", _ => "10+" }));
        if writes.len() >= 2 { st.nontrivial_key(replay.as_bytes()); }
        st.sample(format!("cliwrites {} src={}B prior={}B seeds={} writes={} truncs={:?}", c.cfg.line(), c.src.len(), prior.len(), seeds.len(), writes.len(), truncs));
        // C13 on the observed calls: nothing beyond the source, no byte written twice, and no write of bytes the
        // location already held when the run began unless an earlier write of this run had changed them
        let total = c.src.len() as u64;
        let mut written = vec![false; c.src.len()];
        for (o, l) in &writes {
            if o + l > total { st.violation("C13", &format!("write of {} bytes at {} beyond the source length {}", l, o, total), &replay); break; }
            if written[*o as usize..(*o + *l) as usize].iter().any(|b| *b) { st.violation("C13", &format!("bytes at {}..{} written twice", o, o + l), &replay); break; }
            for b in &mut written[*o as usize..(*o + *l) as usize] { *b = true; }
        }
        if truncs != vec![total] { st.violation("C13", &format!("output resized with {:?}, expected once to {}", truncs, total), &replay); }
        // a source chunk that the old output already holds at that very offset (found there by the scan) is not written
        if inplace {
            if let (Ok((sc, _)), Ok((pc, _))) = (crate::chunking::run_chunker(&c.cfg, &c.src, vec![]), crate::chunking::run_chunker(&c.cfg, &prior, vec![])) {
                let srcset: std::collections::HashSet<(u64, Vec<u8>)> = sc.into_iter().collect();
                for (o, d) in pc {
                    if srcset.contains(&(o, d.clone())) && writes.iter().any(|(wo, wl)| *wo < o + d.len() as u64 && o < wo + wl) {
                        st.violation("C13", &format!("the chunk at {}..{} was already in place in the old output but was written again", o, o + d.len() as u64), &replay);
                        break;
                    }
                }
            }
        }
        // model: the same bytes through Model/CloneBytes.v
        if let Some(al) = crate::tamper::aclone_line(&archive) {
            let mut tab: Vec<String> = vec![];
            let mut seen = std::collections::HashSet::new();
            let mut scanned: Vec<&Vec<u8>> = seeds.iter().collect();
            if inplace { scanned.push(&prior); }
            for d in scanned { if let Ok((chs, _)) = crate::chunking::run_chunker(&c.cfg, d, vec![]) { for (_, ch) in chs { if seen.insert(ch.clone()) { tab.push(format!("{}={}", hex(&ch), hex(&b2(&ch)))); } } } }
            let line = format!("cbytesw {} {} {} {} {}", &al["aclone ".len()..], if prior.is_empty() { "-".into() } else { hex(&prior) }, if inplace { 1 } else { 0 },
                if seeds.is_empty() { "-".into() } else { seeds.iter().map(|x| if x.is_empty() { "e".to_string() } else { hex(x) }).collect::<Vec<_>>().join(",") },
                if tab.is_empty() { "-".into() } else { tab.join(";") });
            lines.push((line, format!("OK w={} {}", writes.iter().map(|(o, l)| format!("{}:{}", o, l)).collect::<Vec<_>>().join(","), hex(&got))));
        }
    }, st, &mut out);
    out.finish();
}

// ---------------------------------------------------------------------------------------------
/// C05 at the level of the real process: write faults and kills injected with strace on the output path
pub fn suite_clifault(dir: &str, seed: u64, thorough: bool, st: &mut Stats) {
    let mut out = SuiteOut::new(dir, "clifault");
    let n = if thorough { 120 } else { 24 };
    par_for(n, 8, |i, st, lines| {
        let mut rng = Rng::new(seed ^ 0x96 ^ ((i as u64) << 20));
        let s = Scn::new("ft", i as u64);
        let single = i % 3 == 0;
        let slen = if single { rng.range(1, 900) as usize } else { rng.range(5000, 40000) as usize };
        let src = gen_data(&mut rng, slen).0;
        s.write("src.bin", &src);
        let (code, _) = s.bita(&["compress", "-i", "src.bin", "--min-chunk-size", "1024", "--avg-chunk-size", "2048", "--max-chunk-size", "8192", "a.cba"], None, &[]);
        if code != 0 { return; }
        // every third multi-write case: an old output in which many chunks have to move (the source rotated), a
        // write of the re-ordering phase fails once
        let rotated = !single && i % 3 == 1;
        let kind = if rotated { "inplace" } else { *rng.pick(&["new", "inplace", "blockdev"]) };
        let mode = if rotated { "eio" } else { *rng.pick(&["eio", "eio", "kill"]) };
        let when = if rotated { rng.range(1, 6) } else { 1 };
        let mut prior = if kind == "new" { vec![] } else if rotated { let k = src.len() / 3 + rng.below(200) as usize; let mut v = src[k..].to_vec(); v.extend_from_slice(&src[..k]); v } else { edit(&mut rng, &src) };
        if kind == "blockdev" && prior.len() < src.len() { prior.resize(src.len(), 0x33); }
        if kind != "new" { s.write("out.bin", &prior); }
        let outp = s.p("out.bin").to_string_lossy().to_string();
        let inject = if mode == "eio" { format!("inject=write:error=EIO:when={}", when) } else { "inject=write:signal=KILL:when=1".to_string() };
        let mut args: Vec<String> = vec!["-f".into(), "-o".into(), "/dev/null".into(), "-P".into(), outp.clone(), "-e".into(), "trace=write".into(), "-e".into(), inject, bita_bin(), "clone".into()];
        if kind != "new" { args.push("--seed-output".into()); }
        args.push("a.cba".into()); args.push("out.bin".into());
        let env: Vec<(&str, &str)> = if kind == "blockdev" { vec![("BITA_VERIF_FAKE_BLOCK_DEV", "1")] } else { vec![] };
        let argv: Vec<&str> = args.iter().map(|x| x.as_str()).collect();
        // exactly ONE failing write, counted over the whole process (strace counts per thread, and the writes of a
        // tokio file run on whatever thread of the blocking pool is free): through an LD_PRELOAD shim when it was built
        let shim = std::env::var("FAULTSHIM_SO").ok().filter(|p| std::path::Path::new(p).exists());
        let (code1, _) = match (&shim, rotated) {
            (Some(so), true) => {
                let n = format!("{}", when);
                let mut env2: Vec<(&str, &str)> = env.clone();
                env2.extend([("LD_PRELOAD", so.as_str()), ("FAULTSHIM_PATH", "/out.bin"), ("FAULTSHIM_N", n.as_str())]);
                st.count("clifault/single-fault-shim");
                s.bita(&["clone", "--seed-output", "a.cba", "out.bin"], None, &env2)
            }
            _ => s.run("strace", &argv, None, &env),
        };
        let after1 = s.read("out.bin").unwrap_or_default();
        let wrote_ok = if kind == "blockdev" { after1.len() >= src.len() && after1[..src.len()] == src[..] } else { after1 == src };
        st.evaluations += 1;
        st.oracle_checks += 2;
        st.count(&format!("clifault/{}/{}/{}", kind, mode, if single { "single-write" } else if rotated { "rotated-reorder-phase" } else { "multi" }));
        let line = format!("clifault kind={} mode={} single={} src={}B prior={}B", kind, mode, single, src.len(), prior.len());
        st.nontrivial_key(format!("{}{}", line, i).as_bytes());
        st.sample(line.clone());
        // a run whose write failed never reports success (unless nothing had to be written)
        if code1 == 0 && !wrote_ok {
            st.violation("C05", &format!("a write to the output failed ({}) but bita clone exited 0 with a wrong output", mode), &line);
        }
        // re-run in place completes
        let mut args2: Vec<&str> = vec!["clone", "--seed-output", "--force-create", "a.cba", "out.bin"];
        if !s.p("out.bin").exists() { args2 = vec!["clone", "a.cba", "out.bin"]; }
        let (code2, log2) = s.bita(&args2, None, &env);
        let after2 = s.read("out.bin").unwrap_or_default();
        let ok2 = if kind == "blockdev" { after2.len() >= src.len() && after2[..src.len()] == src[..] } else { after2 == src };
        if code2 != 0 || !ok2 {
            st.violation("C05", &format!("re-run after an interrupted clone ({}) did not reproduce the source (exit {}): {}", mode, code2, log2.lines().last().unwrap_or("")), &line);
        }
        lines.push((format!("outfile {}", if code1 == 0 && !wrote_ok { "LOST" } else { "REPORTED" }), "outfile REPORTED".to_string()));
    }, st, &mut out);
    // interrupted between the last write and the final resize: every chunk of the source is in place, the old output's
    // tail is still there (the boundary at the source's end is reproduced by the scan: fixed-size chunks, source a
    // multiple of the chunk size). The re-run has nothing to write and must still leave exactly the source.
    par_for(if thorough { 24 } else { 6 }, 6, |i, st, _lines| {
        let mut rng = Rng::new(seed ^ 0x97 ^ ((i as u64) << 20));
        let s = Scn::new("fz", i as u64);
        let cs = *rng.pick(&[512usize, 1024, 4096]);
        let k = rng.range(1, 12) as usize;
        let src = gen_data(&mut rng, k * cs).0;
        s.write("src.bin", &src);
        let csa = format!("{}", cs);
        let (code, _) = s.bita(&["compress", "-i", "src.bin", "--fixed-size", &csa, "a.cba"], None, &[]);
        if code != 0 { return; }
        let mut state = src.clone();
        for _ in 0..rng.range(1, 3 * cs as u64 + 7) { state.push(rng.next() as u8); }
        s.write("out.bin", &state);
        let verify = i % 2 == 1;
        let mut args: Vec<&str> = vec!["clone", "--seed-output", "--force-create"];
        if verify { args.push("--verify-output"); }
        args.extend(["a.cba", "out.bin"]);
        let (code2, log2) = s.bita(&args, None, &[]);
        let after = s.read("out.bin").unwrap_or_default();
        st.evaluations += 1;
        st.oracle_checks += 1;
        st.count("clifault/all-in-place-but-too-long");
        let line = format!("clifault all-in-place fixed={} chunks={} tail={}B verify={}", cs, k, state.len() - src.len(), verify);
        if code2 != 0 || after != src {
            st.violation("C05", &format!("re-run on an output that holds every chunk in place followed by the old tail (interrupted before the resize) leaves {} bytes, source {} (exit {}): {}", after.len(), src.len(), code2, log2.lines().last().unwrap_or("")), &line);
            if code2 == 0 { st.violation("C03", "in-place clone onto an output that starts with the source and is longer does not leave exactly the source", &line); }
        }
    }, st, &mut out);
    // the case lines of this suite are informational (both columns written by the harness): no model file
    let _ = &mut out;
    out.finish();
    let _ = std::fs::remove_file(format!("{}/clifault.cases", dir));
    let _ = std::fs::remove_file(format!("{}/clifault.impl", dir));
}
