//! Independent protobuf writer (hand rolled, not prost) and dictionary text format.
use crate::util::*;
use bitar::chunk_dictionary as dict;
use std::collections::BTreeMap;

pub fn varint(mut v: u64, out: &mut Vec<u8>) {
    loop {
        if v < 0x80 {
            out.push(v as u8);
            return;
        }
        out.push((v as u8 & 0x7f) | 0x80);
        v >>= 7;
    }
}

/// non canonical (overlong) varint with `extra` padding groups
pub fn varint_padded(v: u64, extra: usize, out: &mut Vec<u8>) {
    let mut tmp = vec![];
    varint(v, &mut tmp);
    if extra == 0 || tmp.len() + extra > 10 {
        out.extend(tmp);
        return;
    }
    let n = tmp.len();
    tmp[n - 1] |= 0x80;
    for i in 0..extra {
        tmp.push(if i + 1 == extra { 0x00 } else { 0x80 });
    }
    out.extend(tmp);
}

pub fn key(tag: u32, wt: u8, out: &mut Vec<u8>) {
    varint(((tag as u64) << 3) | wt as u64, out);
}

pub fn f_varint(tag: u32, v: u64, out: &mut Vec<u8>) {
    key(tag, 0, out);
    varint(v, out);
}

pub fn f_bytes(tag: u32, b: &[u8], out: &mut Vec<u8>) {
    key(tag, 2, out);
    varint(b.len() as u64, out);
    out.extend_from_slice(b);
}

/// an unknown field (tag outside the schema) of a random wire type
pub fn unknown_field(rng: &mut Rng, out: &mut Vec<u8>) {
    let tag = *rng.pick(&[9u32, 10, 15, 16, 100, 1000, 536870911]);
    match rng.below(5) {
        0 => f_varint(tag, rng.next(), out),
        1 => {
            key(tag, 1, out);
            out.extend_from_slice(&rng.next().to_le_bytes());
        }
        2 => {
            let l = rng.range(0, 12) as usize;
            let b: Vec<u8> = (0..l).map(|_| rng.next() as u8).collect();
            f_bytes(tag, &b, out);
        }
        3 => {
            key(tag, 5, out);
            out.extend_from_slice(&(rng.next() as u32).to_le_bytes());
        }
        _ => {
            // group with nested content
            key(tag, 3, out);
            if rng.chance(1, 2) {
                f_varint(3, rng.below(1000), out);
            }
            if rng.chance(1, 3) {
                key(11, 3, out);
                f_bytes(2, b"xy", out);
                key(11, 4, out);
            }
            key(tag, 4, out);
        }
    }
}

#[derive(Clone, Debug, Default, PartialEq)]
pub struct Desc {
    pub checksum: Vec<u8>,
    pub archive_size: u32,
    pub archive_offset: u64,
    pub source_size: u32,
}

#[derive(Clone, Debug, Default, PartialEq)]
pub struct Dict {
    pub version: Vec<u8>,
    pub checksum: Vec<u8>,
    pub total: u64,
    pub params: Option<[u32; 6]>, // bits, min, max, win, hashlen, algo
    pub comp: Option<[u32; 2]>,   // type, level
    pub order: Vec<u32>,
    pub descs: Vec<Desc>,
    pub meta: BTreeMap<Vec<u8>, Vec<u8>>,
}

impl Dict {
    pub fn text(&self) -> String {
        let p = match &self.params {
            Some(p) => p.iter().map(|x| x.to_string()).collect::<Vec<_>>().join(","),
            None => "-".into(),
        };
        let z = match &self.comp {
            Some(p) => format!("{},{}", p[0], p[1]),
            None => "-".into(),
        };
        let o = if self.order.is_empty() { "-".into() } else { self.order.iter().map(|x| x.to_string()).collect::<Vec<_>>().join(",") };
        let d = if self.descs.is_empty() {
            "-".into()
        } else {
            self.descs.iter().map(|d| format!("{}:{}:{}:{}", hex(&d.checksum), d.archive_size, d.archive_offset, d.source_size)).collect::<Vec<_>>().join(";")
        };
        let m = if self.meta.is_empty() {
            "-".into()
        } else {
            self.meta.iter().map(|(k, v)| format!("{}:{}", hex(k), hex(v))).collect::<Vec<_>>().join(";")
        };
        format!("V{} C{} T{} P{} Z{} O{} D{} M{}", hex(&self.version), hex(&self.checksum), self.total, p, z, o, d, m)
    }

    pub fn from_prost(d: &dict::ChunkDictionary) -> Dict {
        Dict {
            version: d.application_version.as_bytes().to_vec(),
            checksum: d.source_checksum.clone(),
            total: d.source_total_size,
            params: d.chunker_params.as_ref().map(|p| [p.chunk_filter_bits, p.min_chunk_size, p.max_chunk_size, p.rolling_hash_window_size, p.chunk_hash_length, p.chunking_algorithm as u32]),
            comp: d.chunk_compression.as_ref().map(|c| [c.compression as u32, c.compression_level]),
            order: d.rebuild_order.clone(),
            descs: d.chunk_descriptors.iter().map(|x| Desc { checksum: x.checksum.clone(), archive_size: x.archive_size, archive_offset: x.archive_offset, source_size: x.source_size }).collect(),
            meta: d.metadata.iter().map(|(k, v)| (k.as_bytes().to_vec(), v.clone())).collect(),
        }
    }

    /// only when the strings are valid UTF-8
    pub fn to_prost(&self) -> Option<dict::ChunkDictionary> {
        let mut meta = BTreeMap::new();
        for (k, v) in &self.meta {
            meta.insert(String::from_utf8(k.clone()).ok()?, v.clone());
        }
        Some(dict::ChunkDictionary {
            application_version: String::from_utf8(self.version.clone()).ok()?,
            source_checksum: self.checksum.clone(),
            source_total_size: self.total,
            chunker_params: self.params.map(|p| dict::ChunkerParameters {
                chunk_filter_bits: p[0], min_chunk_size: p[1], max_chunk_size: p[2], rolling_hash_window_size: p[3],
                chunk_hash_length: p[4], chunking_algorithm: p[5] as i32,
            }),
            chunk_compression: self.comp.map(|c| dict::ChunkCompression { compression: c[0] as i32, compression_level: c[1] }),
            rebuild_order: self.order.clone(),
            chunk_descriptors: self.descs.iter().map(|d| dict::ChunkDescriptor { checksum: d.checksum.clone(), archive_size: d.archive_size, archive_offset: d.archive_offset, source_size: d.source_size }).collect(),
            metadata: meta,
        })
    }

    /// Independent encoder with the freedoms the format allows: any field order, unknown fields, packed or
    /// unpacked rebuild_order, split sub-messages, overridden scalars, non-canonical varints, zero valued
    /// fields written explicitly.
    pub fn encode_free(&self, rng: &mut Rng, wild: bool) -> Vec<u8> {
        let mut fields: Vec<Vec<u8>> = vec![];
        let mut push = |f: Vec<u8>| fields.push(f);
        let explicit_zero = wild && rng.chance(1, 3);
        if !self.version.is_empty() || explicit_zero {
            let mut f = vec![];
            if wild && rng.chance(1, 4) {
                f_bytes(1, b"overridden", &mut f); // last wins
            }
            f_bytes(1, &self.version, &mut f);
            push(f);
        }
        if !self.checksum.is_empty() || explicit_zero {
            let mut f = vec![];
            f_bytes(2, &self.checksum, &mut f);
            push(f);
        }
        if self.total != 0 || explicit_zero {
            let mut f = vec![];
            if wild && rng.chance(1, 4) {
                f_varint(3, 12345, &mut f);
            }
            key(3, 0, &mut f);
            varint_padded(self.total, if wild { rng.below(3) as usize } else { 0 }, &mut f);
            push(f);
        }
        if let Some(p) = &self.params {
            // possibly split into two sub-messages that are merged
            let mut parts: Vec<Vec<u8>> = vec![vec![], vec![]];
            let mut order: Vec<usize> = (0..6).collect();
            if wild {
                for i in (1..6).rev() {
                    let j = rng.below(i as u64 + 1) as usize;
                    order.swap(i, j);
                }
            }
            for i in order {
                if p[i] != 0 || explicit_zero {
                    let w = if wild && rng.chance(1, 2) { 1 } else { 0 };
                    f_varint(i as u32 + 1, p[i] as u64, &mut parts[w]);
                    if wild && rng.chance(1, 6) {
                        unknown_field(rng, &mut parts[w]);
                    }
                }
            }
            let mut f = vec![];
            f_bytes(4, &parts[0], &mut f);
            if !parts[1].is_empty() {
                f_bytes(4, &parts[1], &mut f);
            }
            push(f);
        }
        if let Some(c) = &self.comp {
            let mut m = vec![];
            if c[1] != 0 || explicit_zero {
                f_varint(3, c[1] as u64, &mut m);
            }
            if c[0] != 0 || explicit_zero {
                f_varint(2, c[0] as u64, &mut m);
            }
            if wild && rng.chance(1, 4) {
                unknown_field(rng, &mut m);
            }
            let mut f = vec![];
            f_bytes(5, &m, &mut f);
            push(f);
        }
        if !self.order.is_empty() {
            // packed, unpacked, or mixed runs
            let mut f = vec![];
            let mode = if wild { rng.below(3) } else { 0 };
            let mut i = 0;
            while i < self.order.len() {
                let run = match mode { 0 => self.order.len(), 1 => 1, _ => rng.range(1, 4) as usize }.min(self.order.len() - i);
                if mode == 1 || (mode == 2 && rng.chance(1, 2)) {
                    for v in &self.order[i..i + run] {
                        f_varint(6, *v as u64, &mut f);
                    }
                } else {
                    let mut p = vec![];
                    for v in &self.order[i..i + run] {
                        varint(*v as u64, &mut p);
                    }
                    f_bytes(6, &p, &mut f);
                }
                i += run;
            }
            push(f);
        }
        {
            // descriptors must stay in order relative to each other: one block
            let mut f = vec![];
            for d in &self.descs {
                let mut m = vec![];
                let mut parts: Vec<Vec<u8>> = vec![];
                if !d.checksum.is_empty() || explicit_zero { let mut x = vec![]; f_bytes(1, &d.checksum, &mut x); parts.push(x); }
                if d.archive_size != 0 || explicit_zero { let mut x = vec![]; f_varint(3, d.archive_size as u64, &mut x); parts.push(x); }
                if d.archive_offset != 0 || explicit_zero { let mut x = vec![]; f_varint(4, d.archive_offset, &mut x); parts.push(x); }
                if d.source_size != 0 || explicit_zero { let mut x = vec![]; f_varint(5, d.source_size as u64, &mut x); parts.push(x); }
                if wild {
                    for i in (1..parts.len()).rev() {
                        let j = rng.below(i as u64 + 1) as usize;
                        parts.swap(i, j);
                    }
                    if rng.chance(1, 5) { let mut x = vec![]; unknown_field(rng, &mut x); parts.push(x); }
                }
                for p in parts { m.extend(p); }
                f_bytes(7, &m, &mut f);
                if wild && rng.chance(1, 10) {
                    unknown_field(rng, &mut f);
                }
            }
            if !f.is_empty() { push(f); }
        }
        for (k, v) in &self.meta {
            let mut m = vec![];
            let key_first = !wild || rng.chance(1, 2);
            if key_first {
                if !k.is_empty() || explicit_zero { f_bytes(1, k, &mut m); }
                if !v.is_empty() || explicit_zero { f_bytes(2, v, &mut m); }
            } else {
                if !v.is_empty() || explicit_zero { f_bytes(2, v, &mut m); }
                if !k.is_empty() || explicit_zero { f_bytes(1, k, &mut m); }
            }
            let mut f = vec![];
            if wild && rng.chance(1, 5) {
                // an earlier entry with the same key: last wins
                let mut m0 = vec![];
                f_bytes(1, k, &mut m0);
                f_bytes(2, b"old", &mut m0);
                f_bytes(8, &m0, &mut f);
            }
            f_bytes(8, &m, &mut f);
            push(f);
        }
        if wild {
            for _ in 0..rng.below(3) {
                let mut f = vec![];
                unknown_field(rng, &mut f);
                push(f);
            }
            for i in (1..fields.len()).rev() {
                let j = rng.below(i as u64 + 1) as usize;
                fields.swap(i, j);
            }
        }
        fields.concat()
    }
}

pub fn gen_dict(rng: &mut Rng) -> Dict {
    let hl = *rng.pick(&[0usize, 4, 8, 16, 64, 64, 70]);
    let nd = rng.range(0, 6) as usize;
    let mut off = 0u64;
    let descs: Vec<Desc> = (0..nd)
        .map(|_| {
            let ss = rng.range(0, 5000) as u32;
            let asz = if rng.chance(1, 2) { ss } else { rng.range(0, ss as u64) as u32 };
            let d = Desc { checksum: (0..hl).map(|_| rng.next() as u8).collect(), archive_size: asz, archive_offset: off, source_size: ss };
            off += asz as u64;
            if rng.chance(1, 30) { off = rng.next(); }
            d
        })
        .collect();
    let no = rng.range(0, 10) as usize;
    let order: Vec<u32> = (0..no).map(|_| if rng.chance(1, 25) { rng.next() as u32 } else { rng.below(nd.max(1) as u64) as u32 }).collect();
    let mut meta = BTreeMap::new();
    for _ in 0..rng.below(4) {
        let k: Vec<u8> = match rng.below(4) { 0 => vec![], 1 => "schlüssel".as_bytes().to_vec(), 2 => b"key".to_vec(), _ => format!("k{}", rng.below(100)).into_bytes() };
        let v: Vec<u8> = (0..rng.below(12)).map(|_| rng.next() as u8).collect();
        meta.insert(k, v);
    }
    let small = |rng: &mut Rng| -> u32 { match rng.below(6) { 0 => 0, 1 => rng.next() as u32, _ => rng.below(70000) as u32 } };
    Dict {
        version: if rng.chance(1, 8) { vec![] } else { b"0.13.0".to_vec() },
        checksum: (0..*rng.pick(&[0usize, 64, 64, 10])).map(|_| rng.next() as u8).collect(),
        total: match rng.below(5) { 0 => 0, 1 => rng.next(), _ => rng.below(1 << 24) },
        params: if rng.chance(1, 12) { None } else { Some([rng.below(35) as u32, small(rng), small(rng), small(rng), hl as u32, rng.below(4) as u32]) },
        comp: if rng.chance(1, 12) { None } else { Some([rng.below(5) as u32, rng.below(13) as u32]) },
        order, descs, meta,
    }
}
