//! Suites `protoenc`, `protodec`, `tryinit`, `compress`: the dictionary codec, Archive::try_init and the
//! library archive writer against the model; implementation-side oracles for C11, C12, C15, C17, C04 (header).
use crate::pb::*;
use crate::util::*;
use bitar::archive_reader::IoReader;
use bitar::chunker::Config;
use bitar::{Archive, ArchiveError, Compression};
use blake2::{Blake2b512, Digest};
use prost::Message;
use std::collections::BTreeMap;
use std::io::Cursor;

pub fn b2(data: &[u8]) -> Vec<u8> {
    let mut h = Blake2b512::new();
    h.update(data);
    h.finalize().to_vec()
}

// ---------------------------------------------------------------------------------------------
pub fn suite_protoenc(dir: &str, seed: u64, thorough: bool, st: &mut Stats) {
    let mut rng = Rng::new(seed ^ 0x71);
    let mut out = SuiteOut::new(dir, "protoenc");
    let n = if thorough { 30000 } else { 600 };
    for _ in 0..n {
        let d = gen_dict(&mut rng);
        let p = match d.to_prost() { Some(p) => p, None => continue };
        let mut buf = vec![];
        p.encode(&mut buf).unwrap();
        let line = format!("protoenc {}", d.text());
        st.evaluations += 1;
        st.count(&format!("protoenc/descs={}", d.descs.len().min(3)));
        if buf.len() > 20 { st.nontrivial_key(line.as_bytes()); }
        st.sample(line.clone());
        // oracle (C11 codec): prost decodes what it encoded
        st.oracle_checks += 1;
        match bitar::chunk_dictionary::ChunkDictionary::decode(&buf[..]) {
            Ok(back) if back == p => {}
            _ => st.violation("C11", "dictionary does not survive encode/decode", &line),
        }
        out.push(&line, &format!("OK {}", hex(&buf)));
    }
    out.finish();
}

fn mutate(rng: &mut Rng, b: &[u8]) -> Vec<u8> {
    let mut v = b.to_vec();
    match rng.below(6) {
        0 => { if !v.is_empty() { let i = rng.below(v.len() as u64) as usize; v[i] ^= 1 << rng.below(8); } }
        1 => { let l = rng.below(v.len() as u64 + 1) as usize; v.truncate(l); }
        2 => { for _ in 0..rng.range(1, 6) { v.push(rng.next() as u8); } }
        3 => { if !v.is_empty() { let i = rng.below(v.len() as u64) as usize; v[i] = rng.next() as u8; } }
        4 => { if v.len() > 2 { let i = rng.below(v.len() as u64 - 1) as usize; v.remove(i); } }
        _ => { if !v.is_empty() { let i = rng.below(v.len() as u64) as usize; v.insert(i, *rng.pick(&[0x80u8, 0xff, 0x00, 0x0b, 0x0c, 0x3b])); } }
    }
    v
}

pub fn decode_line(bytes: &[u8]) -> String {
    let r = std::panic::catch_unwind(|| bitar::chunk_dictionary::ChunkDictionary::decode(bytes));
    match r {
        Ok(Ok(d)) => format!("OK {}", Dict::from_prost(&d).text()),
        Ok(Err(_)) => "ERR".into(),
        Err(_) => "PANIC".into(),
    }
}

pub fn suite_protodec(dir: &str, seed: u64, thorough: bool, st: &mut Stats) {
    let mut rng = Rng::new(seed ^ 0x72);
    let mut out = SuiteOut::new(dir, "protodec");
    let n = if thorough { 50000 } else { 1500 };
    for i in 0..n {
        let d = gen_dict(&mut rng);
        let (bytes, kind) = match i % 6 {
            0 => (d.encode_free(&mut rng, false), "canonical-order"),
            1 | 2 => (d.encode_free(&mut rng, true), "free"),
            3 => { let b = d.encode_free(&mut rng, true); (mutate(&mut rng, &b), "mutated") }
            4 => { let b = d.encode_free(&mut rng, false); let m = mutate(&mut rng, &b); (mutate(&mut rng, &m), "mutated2") }
            _ => { let l = rng.range(0, 40) as usize; ((0..l).map(|_| rng.next() as u8).collect(), "random") }
        };
        let imp = decode_line(&bytes);
        let line = format!("protodec {}", hex(&bytes));
        st.evaluations += 1;
        st.count(&format!("protodec/{}/{}", kind, &imp[..2]));
        if imp.starts_with("OK") && bytes.len() > 10 { st.nontrivial_key(line.as_bytes()); }
        st.sample(line.clone());
        st.oracle_checks += 1;
        if imp == "PANIC" {
            st.violation("C15", "dictionary decoder panicked", &line);
        }
        // C17 oracle: a conforming (free) encoding decodes to the dictionary it encodes
        if kind == "free" || kind == "canonical-order" {
            if d.to_prost().is_some() {
                let want = format!("OK {}", d.text());
                if imp != want {
                    st.violation("C17", "a conforming encoding of a dictionary is not decoded to that dictionary", &line);
                }
            }
        }
        out.push(&line, &imp);
    }
    // nested groups around the recursion limit
    for depth in [1usize, 50, 98, 99, 100, 101, 102, 150] {
        let mut b = vec![];
        for _ in 0..depth { key(9, 3, &mut b); }
        for _ in 0..depth { key(9, 4, &mut b); }
        let imp = decode_line(&b);
        st.evaluations += 1;
        st.count(&format!("protodec/groups/{}", &imp[..2]));
        out.push(&format!("protodec {}", hex(&b)), &imp);
        // inside a sub-message
        let mut m = vec![];
        f_bytes(4, &b, &mut m);
        let imp = decode_line(&m);
        st.evaluations += 1;
        out.push(&format!("protodec {}", hex(&m)), &imp);
    }
    out.finish();
}

// ---------------------------------------------------------------------------------------------
pub fn cfg_str(c: &Config) -> String {
    match c {
        Config::BuzHash(f) => format!("B,{},{},{},{}", f.filter_bits.bits(), f.min_chunk_size, f.max_chunk_size, f.window_size),
        Config::RollSum(f) => format!("R,{},{},{},{}", f.filter_bits.bits(), f.min_chunk_size, f.max_chunk_size, f.window_size),
        Config::FixedSize(n) => format!("F,0,0,{},0", n),
    }
}

pub fn archive_line<R>(a: &Archive<R>) -> String {
    let comp = match a.chunk_compression() {
        None => "-".to_string(),
        Some(c) => {
            // algorithm is private: go through Display ("Brotli (level n)")
            let s = format!("{}", c);
            let lvl: String = s.chars().filter(|c| c.is_ascii_digit()).collect();
            format!("{},{}", if s.starts_with("Brotli") { 3 } else if s.starts_with("LZMA") { 1 } else { 2 }, lvl)
        }
    };
    let descs = if a.chunk_descriptors().is_empty() { "-".into() } else {
        a.chunk_descriptors().iter().map(|d| format!("{}:{}:{}:{}", hex(d.checksum.slice()), d.archive_size, d.archive_offset, d.source_size)).collect::<Vec<_>>().join(";")
    };
    let order: Vec<String> = a.iter_source_chunks().map(|(off, cd)| {
        let i = a.chunk_descriptors().iter().position(|x| std::ptr::eq(x, cd)).unwrap();
        format!("{}@{}", i, off)
    }).collect();
    let meta: Vec<String> = a.metadata_iter().map(|(k, v)| format!("{}:{}", hex(k.as_bytes()), hex(v))).collect();
    // build_source_index with keys = index of the first descriptor with the same truncated checksum
    let idx = a.build_source_index();
    let mut m: BTreeMap<usize, (usize, Vec<u64>)> = BTreeMap::new();
    let hl = a.chunk_hash_length();
    for (h, loc) in idx.iter_chunks() {
        let k = a.chunk_descriptors().iter().position(|d| { let s = d.checksum.slice(); &s[..s.len().min(hl)] == h.slice() }).unwrap_or(9999);
        m.insert(k, (loc.size(), loc.offsets().to_vec()));
    }
    let idx_s = if m.is_empty() { "-".into() } else { m.iter().map(|(k, (s, o))| format!("{}:{}:{}", k, s, o.iter().map(|x| x.to_string()).collect::<Vec<_>>().join(","))).collect::<Vec<_>>().join(";") };
    format!("OK hs={} hc={} off={} total={} sc={} hl={} comp={} cfg={} ver={} order={} descs={} meta={} idx={}",
        a.header_size(), hex(a.header_checksum().slice()), a.chunk_data_offset(), a.total_source_size(), hex(a.source_checksum().slice()),
        a.chunk_hash_length(), comp, cfg_str(a.chunker_config()), hex(a.built_with_version().as_bytes()),
        if order.is_empty() { "-".into() } else { order.join(",") }, descs, if meta.is_empty() { "-".into() } else { meta.join(";") }, idx_s)
}

pub fn try_init_line(bytes: &[u8]) -> String {
    let bytes = bytes.to_vec();
    let r = std::panic::catch_unwind(move || {
        let rt = tokio::runtime::Builder::new_current_thread().build().unwrap();
        rt.block_on(async move {
            match Archive::try_init(IoReader::new(Cursor::new(bytes))).await {
                Ok(a) => archive_line(&a),
                Err(ArchiveError::InvalidArchive(_)) => "INVALID".to_string(),
                Err(ArchiveError::ReaderError(_)) => "READER".to_string(),
            }
        })
    });
    r.unwrap_or_else(|_| "PANIC".to_string())
}

/// header bytes for a dictionary encoding (independent of header::build): magic, size, dict, offset, blake2
pub fn make_header(dict_bytes: &[u8], legacy: bool, offset: Option<u64>) -> Vec<u8> {
    let mut h: Vec<u8> = if legacy { b"\0BITA1".to_vec() } else { b"BITA1\0".to_vec() };
    h.extend_from_slice(&(dict_bytes.len() as u64).to_le_bytes());
    h.extend_from_slice(dict_bytes);
    let off = offset.unwrap_or(h.len() as u64 + 8 + 64);
    h.extend_from_slice(&off.to_le_bytes());
    let sum = b2(&h);
    h.extend_from_slice(&sum);
    h
}

/// the (prefix, hash) pair the model's hash oracle needs for these archive bytes
fn header_hash_pair(bytes: &[u8]) -> String {
    if bytes.len() < 14 { return "-".into(); }
    let dsize = u64::from_le_bytes(bytes[6..14].try_into().unwrap());
    let offs = (14u128 + dsize as u128 + 8) as u128;
    if offs + 64 > bytes.len() as u128 { return "-".into(); }
    let offs = offs as usize;
    hex(&b2(&bytes[..offs]))
}

fn plausible_dict(rng: &mut Rng) -> Dict {
    // a dictionary that try_init accepts (mostly): valid parameters, indexes in range
    let mut d = gen_dict(rng);
    let algo = rng.below(3) as u32;
    let win = rng.range(1, 64) as u32;
    let min = rng.below(100) as u32;
    let max = min.max(win) + rng.below(5000) as u32;
    d.params = Some(if algo == 2 { [0, 0, rng.range(1, 70000) as u32, 0, d.params.map(|p| p[4]).unwrap_or(64), 2] } else { [rng.range(1, 30) as u32, min, max, win, d.params.map(|p| p[4]).unwrap_or(64), algo] });
    d.comp = Some(if rng.chance(1, 2) { [0, 0] } else { [3, rng.range(1, 11) as u32] });
    let nd = d.descs.len();
    d.order = if nd == 0 { vec![] } else { (0..rng.range(0, 10)).map(|_| rng.below(nd as u64) as u32).collect() };
    let mut off = 0u64;
    for x in d.descs.iter_mut() { x.archive_offset = off; off += x.archive_size as u64; }
    d
}

pub fn suite_tryinit(dir: &str, seed: u64, thorough: bool, st: &mut Stats) {
    let mut rng = Rng::new(seed ^ 0x73);
    let mut out = SuiteOut::new(dir, "tryinit");
    let n = if thorough { 40000 } else { 1200 };
    for i in 0..n {
        let mut d = plausible_dict(&mut rng);
        let mut kind = "conforming";
        let legacy = rng.chance(1, 4);
        let mut slack = if rng.chance(1, 3) { rng.below(100) } else { 0 };
        // hostile but checksummed headers (C15)
        if i % 3 == 1 {
            kind = "hostile-field";
            match rng.below(12) {
                0 => { d.order.push(d.descs.len() as u32 + rng.below(3) as u32); }
                1 => { if let Some(x) = d.descs.first_mut() { x.archive_offset = u64::MAX - rng.below(200); } else { d.total = u64::MAX; } }
                2 => { if let Some(p) = d.params.as_mut() { p[3] = 0; } }
                3 => { if let Some(p) = d.params.as_mut() { p[0] = *rng.pick(&[0u32, 31, 32, 33, 64, u32::MAX]); } }
                4 => { if let Some(p) = d.params.as_mut() { p[1] = p[2].saturating_add(1 + rng.below(1000) as u32); } }
                5 => { if let Some(p) = d.params.as_mut() { p[2] = 0; } }
                6 => { if let Some(p) = d.params.as_mut() { p[5] = 3 + rng.below(5) as u32; } }
                7 => { d.comp = Some([rng.range(1, 9) as u32, rng.below(30) as u32]); }
                8 => { d.params = None; }
                9 => { d.comp = None; }
                10 => { if let Some(p) = d.params.as_mut() { p[3] = p[2].saturating_add(1); } }
                _ => { if let Some(x) = d.descs.last_mut() { x.archive_size = u32::MAX; x.archive_offset = u64::MAX - 5; } }
            }
            if rng.chance(1, 6) { slack = u64::MAX - rng.below(1000); }
        }
        // values exactly at, just below and just above every limit the reader checks (accepted and refused side)
        let mut force_off: Option<u64> = None;
        if i % 12 == 0 {
            kind = "boundary";
            let delta = |rng: &mut Rng| -> i64 { *rng.pick(&[-1i64, 0, 0, 1]) };
            let rolling = d.params.map(|p| p[5] != 2).unwrap_or(false);
            match rng.below(if rolling { 11 } else { 7 }) {
                0 => { // last chunk ends exactly at / around 2^64
                    let x: u64 = *rng.pick(&[1u64 << 20, 4096, 1 << 40]);
                    force_off = Some(x);
                    if let Some(last) = d.descs.last_mut() {
                        let sz = last.archive_size.max(1) as u128;
                        last.archive_size = sz as u32;
                        let v = (1u128 << 64) - x as u128 - sz;
                        let v = (v as i128 + *rng.pick(&[-2i128, -1, 0, 0, 1])) as u128;
                        last.archive_offset = v.min(u64::MAX as u128) as u64;
                    }
                }
                1 => { // a chunk starts exactly at / around 2^64
                    let x: u64 = *rng.pick(&[1u64 << 20, 4096]);
                    force_off = Some(x);
                    if let Some(first) = d.descs.first_mut() {
                        let v = ((1u128 << 64) - x as u128) as i128 + *rng.pick(&[-1i128, 0, 1]);
                        first.archive_offset = (v as u128).min(u64::MAX as u128) as u64;
                        if rng.chance(1, 2) { first.archive_size = 0; }
                    }
                }
                2 => { let nd = d.descs.len() as u32; if nd > 0 { d.order.push(nd - 1); if rng.chance(1, 2) { d.order.push(nd); } } }
                3 => { if let Some(p) = d.params.as_mut() { p[4] = *rng.pick(&[0u32, 1, 2, 3, 4, 5, 63, 64, 65, 128]); } }
                4 => { d.comp = Some([*rng.pick(&[0u32, 1, 2, 3, 4]), *rng.pick(&[0u32, 1, 9, 10, 11, 12, 19, 21, 22, 23])]); }
                5 => { if let Some(p) = d.params.as_mut() { p[2] = *rng.pick(&[0u32, 1, 2, u32::MAX]); if p[5] != 2 { p[3] = p[3].min(p[2].max(1)); p[1] = p[1].min(p[2]); } } }
                6 => { slack = 0; force_off = Some((14 + 72) as u64); } // data offset inside the header (set below when known)
                7 => { if let Some(p) = d.params.as_mut() { p[1] = (p[2] as i64 + delta(&mut rng)).max(0) as u32; } }               // min vs max
                8 => { if let Some(p) = d.params.as_mut() { p[3] = (p[2] as i64 + delta(&mut rng)).max(0) as u32; p[1] = p[1].min(p[2]); } } // window vs max
                9 => { if let Some(p) = d.params.as_mut() { p[0] = *rng.pick(&[0u32, 1, 2, 29, 30, 31, 32]); } }
                _ => { if let Some(p) = d.params.as_mut() { let v = p[2].max(1); p[1] = v; p[2] = v; p[3] = (v as i64 + delta(&mut rng)).max(0) as u32; } } // min = max = window(+-1)
            }
        }
        let wild = rng.chance(1, 2);
        let dict_bytes = d.encode_free(&mut rng, wild);
        let hlen = 14 + dict_bytes.len() as u64 + 72;
        let mut offset = if slack == 0 { None } else { Some(if slack > (1 << 60) { slack } else { hlen + slack }) };
        if let Some(x) = force_off {
            // `14 + 72` marks "relative to the header": the data offset exactly at / around the header length
            offset = Some(if x == 14 + 72 { (hlen as i64 + *rng.pick(&[-1i64, 0, 1])) as u64 } else { x });
        }
        let mut bytes = make_header(&dict_bytes, legacy, offset);
        // some payload after the header
        for _ in 0..rng.below(50) { bytes.push(rng.next() as u8); }
        if i % 3 == 2 {
            match rng.below(6) {
                0 => { kind = "bitflip"; let k = rng.below(bytes.len() as u64 * 8); bytes[(k / 8) as usize] ^= 1 << (k % 8); }
                1 => { kind = "truncated"; let l = rng.below(bytes.len() as u64) as usize; bytes.truncate(l); }
                2 => {
                    kind = "dict-size-field";
                    let v: u64 = *rng.pick(&[u64::MAX, u64::MAX - 10, u64::MAX - 71, u64::MAX - 72, 1 << 45, 1 << 32, 1 << 62, 0, 1, dict_bytes.len() as u64 + 1, (dict_bytes.len() as u64).saturating_sub(1)]);
                    bytes[6..14].copy_from_slice(&v.to_le_bytes());
                }
                3 => { kind = "random"; let l = rng.range(0, 200) as usize; bytes = (0..l).map(|_| rng.next() as u8).collect(); }
                4 => { kind = "random-magic"; let l = rng.range(0, 120) as usize; bytes = b"BITA1\0".iter().copied().chain((0..l).map(|_| rng.next() as u8)).collect(); }
                _ => { kind = "overwrite"; let a = rng.below(bytes.len() as u64) as usize; for j in a..(a + 4).min(bytes.len()) { bytes[j] = rng.next() as u8; } }
            }
        }
        let imp = try_init_line(&bytes);
        let line = format!("tryinit {} {}", hex(&bytes), header_hash_pair(&bytes));
        st.evaluations += 1;
        st.count(&format!("tryinit/{}/{}", kind, imp.split(' ').next().unwrap()));
        if imp.starts_with("OK") { st.nontrivial_key(line.as_bytes()); }
        st.sample(line.clone());
        st.oracle_checks += 1;
        if imp == "PANIC" {
            st.violation("C15", &format!("opening an archive panicked ({})", kind), &line);
        }
        if kind == "bitflip" && imp.starts_with("OK") {
            // C04: any change inside the header is rejected when the archive is opened
            let hl = 14 + dict_bytes.len() + 72;
            let orig = make_header(&dict_bytes, legacy, offset);
            if bytes[..hl] != orig[..hl] {
                st.violation("C04", "a bit flip inside the header was accepted", &line);
            }
        }
        out.push(&line, &imp);
    }
    out.finish();
}

// ---------------------------------------------------------------------------------------------
pub struct CompressCase {
    pub cfg: crate::chunking::Cfg,
    pub hashlen: usize,
    pub comp: Option<(u32, u32)>, // (CompressionType value: 1 lzma, 2 zstd, 3 brotli; level)
    pub meta: BTreeMap<String, Vec<u8>>,
    pub src: Vec<u8>,
}

/// output of the library writer in the harness: bytes become part of the result only when flushed
#[derive(Default)]
pub struct LazyWriter { pub committed: Vec<u8>, pub pending: Vec<u8> }
impl tokio::io::AsyncWrite for LazyWriter {
    fn poll_write(mut self: std::pin::Pin<&mut Self>, _cx: &mut std::task::Context<'_>, buf: &[u8]) -> std::task::Poll<std::io::Result<usize>> {
        self.pending.extend_from_slice(buf);
        std::task::Poll::Ready(Ok(buf.len()))
    }
    fn poll_flush(mut self: std::pin::Pin<&mut Self>, _cx: &mut std::task::Context<'_>) -> std::task::Poll<std::io::Result<()>> {
        let p = std::mem::take(&mut self.pending);
        self.committed.extend_from_slice(&p);
        std::task::Poll::Ready(Ok(()))
    }
    fn poll_shutdown(self: std::pin::Pin<&mut Self>, cx: &mut std::task::Context<'_>) -> std::task::Poll<std::io::Result<()>> { self.poll_flush(cx) }
}

pub fn run_create_archive(c: &CompressCase, buffers: usize, sched: Vec<Ev>) -> Result<Vec<u8>, String> {
    let opts = bitar::api::compress::CreateArchiveOptions {
        chunker_config: c.cfg.to_config(),
        num_chunk_buffers: buffers,
        chunk_hash_length: c.hashlen,
        temporary_file_override: None,
        compression: c.comp.map(|(t, l)| compression_of(t, l)),
        metadata: c.meta.clone(),
    };
    let src = c.src.clone();
    let r = std::panic::catch_unwind(move || {
        // one shared multi-thread runtime (workers + blocking pool) for all runs of the suite
        static RT: std::sync::OnceLock<tokio::runtime::Runtime> = std::sync::OnceLock::new();
        let rt = RT.get_or_init(|| tokio::runtime::Builder::new_multi_thread().worker_threads(3).enable_all().build().unwrap());
        rt.block_on(async move {
            let reader = ScriptReader::new(src, sched);
            // a writer that, like a BufWriter or a tokio File, only commits what was written when it is flushed:
            // what counts as the archive is what is committed when create_archive returns
            let mut out = LazyWriter::default();
            match bitar::api::compress::create_archive(reader, &mut out, &opts).await {
                Ok(_) if !out.pending.is_empty() => Err(format!("UNFLUSHED {} of {} bytes were written but not flushed when create_archive returned", out.pending.len(), out.pending.len() + out.committed.len())),
                Ok(_) => Ok(out.committed),
                Err(e) => Err(format!("error {}", e)),
            }
        })
    });
    match r { Ok(x) => x, Err(_) => Err("PANIC".into()) }
}

pub fn compression_of(t: u32, level: u32) -> Compression {
    match t {
        1 => Compression::lzma(level).unwrap(),
        2 => Compression::zstd(level).unwrap(),
        _ => Compression::brotli(level).unwrap(),
    }
}

pub fn max_level(t: u32) -> u32 { match t { 1 => 9, 2 => 22, _ => 11 } }

/// the codecs are oracles for the model: compression is obtained through bitar's own public API
pub fn codec_compress(t: u32, level: u32, data: &[u8]) -> Vec<u8> {
    let c = bitar::Chunk::from(data.to_vec()).compress(Some(compression_of(t, level))).unwrap();
    c.data().to_vec()
}

fn brotli_compress(level: u32, data: &[u8]) -> Vec<u8> { codec_compress(3, level, data) }

struct Lim { buf: Vec<u8>, limit: usize }
impl std::io::Write for Lim {
    fn write(&mut self, d: &[u8]) -> std::io::Result<usize> {
        if d.len() > self.limit - self.buf.len() { return Err(std::io::Error::new(std::io::ErrorKind::InvalidData, "too large")); }
        self.buf.extend_from_slice(d);
        Ok(d.len())
    }
    fn flush(&mut self) -> std::io::Result<()> { Ok(()) }
}

/// independent decompression (the codec crates directly), output bounded like the implementation's
pub fn codec_decompress(t: u32, p: &[u8], limit: usize) -> Option<Vec<u8>> {
    let mut out = Lim { buf: vec![], limit };
    match t {
        1 => {
            use std::io::Write;
            let mut f = lzma::LzmaWriter::new_decompressor(&mut out).ok()?;
            f.write_all(p).ok()?;
            f.finish().ok()?;
        }
        2 => { zstd::stream::copy_decode(p, &mut out).ok()?; }
        _ => { let mut inp = p; brotli_decompressor::BrotliDecompress(&mut inp, &mut out).ok()?; }
    }
    Some(out.buf)
}

/// independent decoder (C11): parse the produced archive without bitar's reader and check every clause
pub fn c11_oracle(c: &CompressCase, bytes: &[u8]) -> Result<(), String> {
    if bytes.len() < 14 + 72 { return Err("archive shorter than a header".into()); }
    if &bytes[..6] != b"BITA1\0" { return Err("wrong magic".into()); }
    let dsize = u64::from_le_bytes(bytes[6..14].try_into().unwrap()) as usize;
    if 14 + dsize + 72 > bytes.len() { return Err("dictionary size beyond the file".into()); }
    let dict = &bytes[14..14 + dsize];
    let off = u64::from_le_bytes(bytes[14 + dsize..14 + dsize + 8].try_into().unwrap()) as usize;
    let hlen = 14 + dsize + 72;
    if off != hlen { return Err(format!("chunk data offset {} != header length {}", off, hlen)); }
    if b2(&bytes[..14 + dsize + 8]) != bytes[14 + dsize + 8..hlen] { return Err("header checksum is not Blake2b-512 of the preceding bytes".into()); }
    let d = parse_dict(dict).ok_or("dictionary does not parse as the documented protobuf message")?;
    // descriptors: unique by hash, back to back, in order of first occurrence, stored <= source
    let mut pos = 0u64;
    let mut seen = std::collections::HashSet::new();
    for (i, x) in d.descs.iter().enumerate() {
        if !seen.insert(x.checksum.clone()) { return Err(format!("descriptor {} duplicates a checksum", i)); }
        if x.checksum.len() != c.hashlen.min(64) { return Err(format!("descriptor {} checksum length {}", i, x.checksum.len())); }
        if x.archive_offset != pos { return Err(format!("descriptor {} not stored back to back", i)); }
        if x.archive_size > x.source_size { return Err(format!("descriptor {} stored size exceeds source size", i)); }
        pos += x.archive_size as u64;
    }
    if hlen as u64 + pos != bytes.len() as u64 { return Err("file does not end at the end of the last stored chunk".into()); }
    let mut firsts = vec![];
    let mut total = 0u64;
    let mut srcpos = 0usize;
    for i in &d.order {
        let x = d.descs.get(*i as usize).ok_or("rebuild index out of range")?;
        if !firsts.contains(i) {
            if *i as usize != firsts.len() { return Err("descriptors are not in order of first occurrence".into()); }
            firsts.push(*i);
        }
        // the chunk at this source position has that hash
        let end = srcpos + x.source_size as usize;
        if end > c.src.len() { return Err("rebuild order describes more than the source".into()); }
        if b2(&c.src[srcpos..end])[..x.checksum.len()] != x.checksum[..] { return Err(format!("chunk at source offset {} does not have the recorded checksum", srcpos)); }
        srcpos = end;
        total += x.source_size as u64;
    }
    if firsts.len() != d.descs.len() { return Err("unused descriptor".into()); }
    if total != c.src.len() as u64 || d.total != total { return Err("rebuild sizes do not sum to the source size".into()); }
    if d.checksum != b2(&c.src) { return Err("source checksum is not the Blake2 of the source".into()); }
    // stored payloads decode to the chunk
    for x in &d.descs {
        let p = &bytes[hlen + x.archive_offset as usize..hlen + (x.archive_offset + x.archive_size as u64) as usize];
        let raw = x.archive_size == x.source_size;
        if raw && c.comp.is_some() { /* stored raw because compression did not help */ }
        if !raw {
            if c.comp.is_none() { return Err("compressed payload in an archive without compression".into()); }
            let outv = codec_decompress(c.comp.unwrap().0, p, x.source_size as usize).ok_or("stored payload does not decompress")?;
            if b2(&outv)[..x.checksum.len()] != x.checksum[..] { return Err("stored payload decompresses to other data".into()); }
        } else if b2(p)[..x.checksum.len()] != x.checksum[..] { return Err("raw stored payload has another hash".into()); }
    }
    // settings verbatim
    let want_p = match c.cfg.algo {
        'F' => [0, 0, c.cfg.max as u32, 0, c.hashlen as u32, 2],
        a => [c.cfg.bits, c.cfg.min as u32, c.cfg.max as u32, c.cfg.win as u32, c.hashlen as u32, if a == 'B' { 0 } else { 1 }],
    };
    if d.params != Some(want_p) { return Err(format!("chunker parameters recorded {:?}, requested {:?}", d.params, want_p)); }
    let want_c = match c.comp { None => [0, 0], Some((t, l)) => [t, l] };
    if d.comp != Some(want_c) { return Err("compression not recorded verbatim".into()); }
    let want_m: BTreeMap<Vec<u8>, Vec<u8>> = c.meta.iter().map(|(k, v)| (k.as_bytes().to_vec(), v.clone())).collect();
    if d.meta != want_m { return Err("metadata not recorded verbatim".into()); }
    Ok(())
}

/// strict independent parser for the documented schema (canonical encodings as written by the writers)
pub fn parse_dict(b: &[u8]) -> Option<Dict> {
    fn rv(b: &[u8], p: &mut usize) -> Option<u64> {
        let mut v = 0u64;
        for i in 0..10 {
            let x = *b.get(*p)?;
            *p += 1;
            v |= ((x & 0x7f) as u64) << (7 * i);
            if x < 0x80 { return Some(v); }
        }
        None
    }
    fn rb<'a>(b: &'a [u8], p: &mut usize) -> Option<&'a [u8]> {
        let l = rv(b, p)? as usize;
        let s = b.get(*p..*p + l)?;
        *p += l;
        Some(s)
    }
    let mut d = Dict::default();
    let mut p = 0usize;
    while p < b.len() {
        let k = rv(b, &mut p)?;
        match (k >> 3, k & 7) {
            (1, 2) => d.version = rb(b, &mut p)?.to_vec(),
            (2, 2) => d.checksum = rb(b, &mut p)?.to_vec(),
            (3, 0) => d.total = rv(b, &mut p)?,
            (4, 2) => {
                let m = rb(b, &mut p)?;
                let mut q = 0;
                let mut a = [0u32; 6];
                while q < m.len() { let k = rv(m, &mut q)?; if k & 7 != 0 || k >> 3 == 0 || k >> 3 > 6 { return None; } a[(k >> 3) as usize - 1] = rv(m, &mut q)? as u32; }
                d.params = Some(a);
            }
            (5, 2) => {
                let m = rb(b, &mut p)?;
                let mut q = 0;
                let mut a = [0u32; 2];
                while q < m.len() { let k = rv(m, &mut q)?; match k { 0x10 => a[0] = rv(m, &mut q)? as u32, 0x18 => a[1] = rv(m, &mut q)? as u32, _ => return None } }
                d.comp = Some(a);
            }
            (6, 2) => { let m = rb(b, &mut p)?; let mut q = 0; while q < m.len() { d.order.push(rv(m, &mut q)? as u32); } }
            (7, 2) => {
                let m = rb(b, &mut p)?;
                let mut q = 0;
                let mut x = Desc::default();
                while q < m.len() { let k = rv(m, &mut q)?; match k { 0x0a => x.checksum = rb(m, &mut q)?.to_vec(), 0x18 => x.archive_size = rv(m, &mut q)? as u32, 0x20 => x.archive_offset = rv(m, &mut q)?, 0x28 => x.source_size = rv(m, &mut q)? as u32, _ => return None } }
                d.descs.push(x);
            }
            (8, 2) => {
                let m = rb(b, &mut p)?;
                let mut q = 0;
                let (mut kk, mut vv) = (vec![], vec![]);
                while q < m.len() { let k = rv(m, &mut q)?; match k { 0x0a => kk = rb(m, &mut q)?.to_vec(), 0x12 => vv = rb(m, &mut q)?.to_vec(), _ => return None } }
                d.meta.insert(kk, vv);
            }
            _ => return None,
        }
    }
    Some(d)
}

/// like parse_dict but tolerant of anything prost accepts: uses prost itself (the dictionary is only needed
/// to locate the stored ranges for the oracle tables)
pub fn parse_dict_lenient(b: &[u8]) -> Option<Dict> {
    bitar::chunk_dictionary::ChunkDictionary::decode(b).ok().map(|d| Dict::from_prost(&d))
}

pub fn gen_compress_case(rng: &mut Rng, big: bool) -> CompressCase {
    let cfg = if big {
        crate::chunking::Cfg { algo: *rng.pick(&['R', 'B']), bits: 12, min: 1024, max: (1 << 20) + 17, win: 32 }
    } else { let small = rng.chance(1, 2); crate::chunking::gen_cfg(rng, small) };
    let len = if big { (1 << 20) + rng.range(0, 200_000) as usize } else {
        match rng.below(8) { 0 => 0, 1 => 1, 2 => cfg.win.saturating_sub(1), 3 => cfg.min + 1, 4 => cfg.max + 1, _ => rng.range(0, 20000) as usize }
    };
    let (mut src, _) = gen_data(rng, len);
    if !big && rng.chance(1, 3) && src.len() > 10 {
        // duplicate heavy
        let blk: Vec<u8> = src[..src.len() / 3].to_vec();
        src.extend_from_slice(&blk);
        src.extend_from_slice(&blk);
    }
    let mut meta = BTreeMap::new();
    for _ in 0..rng.below(3) {
        let k = match rng.below(3) { 0 => String::new(), 1 => "ключ".to_string(), _ => format!("key{}", rng.below(10)) };
        meta.insert(k, (0..rng.below(10)).map(|_| rng.next() as u8).collect());
    }
    CompressCase { cfg, hashlen: *rng.pick(&[4usize, 8, 16, 33, 64]), comp: gen_comp(rng), meta, src }
}

/// none / brotli / zstd / lzma at (mostly low, sometimes every) level
pub fn gen_comp(rng: &mut Rng) -> Option<(u32, u32)> {
    if rng.chance(2, 5) { return None; }
    let t = *rng.pick(&[3u32, 3, 2, 1]);
    // (the highest levels set up very large windows per chunk: with the tiny chunks of the random configurations that
    //  takes minutes; they are exercised by dedicated cases with larger chunks in clirt and clihuge)
    let cap = match t { 2 => 12, 1 => 6, _ => 9 };
    let l = if rng.chance(1, 6) { rng.range(1, cap.min(max_level(t)) as u64) } else { rng.range(1, 6.min(max_level(t)) as u64) } as u32;
    Some((t, l))
}

/// a chunk whose compressed form has exactly the chunk's own length (the boundary of the "store raw unless
/// strictly smaller" rule): found by search
pub fn find_equal_chunk(rng: &mut Rng, level: u32) -> Option<Vec<u8>> {
    for _ in 0..6000 {
        let l = rng.range(24, 80) as usize;
        let k = rng.range(l as u64 / 3, l as u64 - 2) as usize;
        let mut d: Vec<u8> = (0..k).map(|_| rng.next() as u8).collect();
        while d.len() < l { let j = d.len() - k; d.push(d[j % k.max(1)]); }
        if brotli_compress(level, &d).len() == d.len() { return Some(d); }
    }
    None
}

pub fn equal_size_case(rng: &mut Rng) -> Option<CompressCase> {
    let level = rng.range(1, 9) as u32;
    let d = find_equal_chunk(rng, level)?;
    let mut src = d.clone();
    if rng.chance(1, 2) { let extra: Vec<u8> = (0..d.len()).map(|_| rng.next() as u8).collect(); src.extend(extra); }
    Some(CompressCase { cfg: crate::chunking::Cfg { algo: 'F', bits: 0, min: 0, max: d.len(), win: 0 }, hashlen: 64, comp: Some((3, level)), meta: Default::default(), src })
}

pub fn compress_line(c: &CompressCase, archive: &[u8]) -> String {
    // tables for the model: unique chunk data -> (hash, compressed), source hash, header prefix hash
    let (chunks, _) = crate::chunking::run_chunker(&c.cfg, &c.src, vec![]).unwrap_or((vec![], vec![]));
    let mut seen = std::collections::HashSet::new();
    let mut tab = vec![];
    for (_, d) in &chunks {
        if seen.insert(d.clone()) {
            let comp = match c.comp { Some((t, l)) => hex(&codec_compress(t, l, d)), None => "-".into() };
            tab.push(format!("{}={}={}", hex(d), hex(&b2(d)), comp));
        }
    }
    let hh = if archive.len() >= 14 { header_hash_pair(archive) } else { "-".into() };
    let meta: Vec<String> = c.meta.iter().map(|(k, v)| format!("{}:{}", hex(k.as_bytes()), hex(v))).collect();
    format!("compress {} {} {} {} {} {} {} {}", c.cfg.line(), c.hashlen,
        match c.comp { Some((t, l)) => format!("{},{}", t, l), None => "-".into() },
        if meta.is_empty() { "-".into() } else { meta.join(";") },
        hex(&c.src), hex(&b2(&c.src)), hh, if tab.is_empty() { "-".into() } else { tab.join(";") })
}

pub fn suite_compress(dir: &str, seed: u64, thorough: bool, st: &mut Stats) {
    let mut rng = Rng::new(seed ^ 0x74);
    let mut out = SuiteOut::new(dir, "compress");
    let n = if thorough { 1500 } else { 100 };
    let nbig = if thorough { 4 } else { 1 };
    for i in 0..(n + nbig) {
        let big = i >= n;
        let c = if !big && i % 10 == 7 { match equal_size_case(&mut rng) { Some(c) => { st.count("compress/equal-size-chunk"); c } None => gen_compress_case(&mut rng, false) } }
                else { gen_compress_case(&mut rng, big) };
        let runs = if big { 2 } else { 3 };
        let mut first: Option<Vec<u8>> = None;
        for r in 0..runs {
            let buffers = *rng.pick(&[1usize, 2, 3, 8, 64]);
            let sched = if r == 0 { vec![] } else { gen_sched(&mut rng, c.src.len()) };
            match run_create_archive(&c, buffers, sched) {
                Ok(bytes) => {
                    st.evaluations += 1;
                    st.oracle_checks += 2;
                    if let Err(what) = c11_oracle(&c, &bytes) {
                        st.violation("C11", &what, &compress_line(&c, &bytes));
                    }
                    // the reader reports the settings back
                    let rep = try_init_line(&bytes);
                    if !rep.starts_with("OK") {
                        st.violation("C11", "the reader does not open the archive the writer produced", &compress_line(&c, &bytes));
                    }
                    // C01 with the library writer: what it wrote is cloned back to the source (a chunk stored in a form
                    // the reader does not take it for -- e.g. compressed to exactly its own size -- fails here)
                    if r == 0 && !big {
                        st.oracle_checks += 1;
                        match crate::tamper::lib_clone(&bytes, &[]) {
                            Ok(d) if d == c.src => {}
                            Ok(_) => st.violation("C01", "the archive of the library writer clones to other bytes than the source", &compress_line(&c, &bytes)),
                            Err(e) => st.violation("C01", &format!("the archive of the library writer cannot be cloned back: {}", e), &compress_line(&c, &bytes)),
                        }
                    }
                    match &first {
                        None => first = Some(bytes.clone()),
                        Some(f) => if *f != bytes {
                            st.violation("C12", &format!("two runs of the library writer differ (buffers {})", buffers), &compress_line(&c, &bytes));
                        }
                    }
                    let line = compress_line(&c, &bytes);
                    if r == 0 {
                        st.count(&format!("compress/{}/{}", c.cfg.algo, match c.comp { None => "none", Some((1, _)) => "lzma", Some((2, _)) => "zstd", _ => "brotli" }));
                        if bytes.len() > 200 { st.nontrivial_key(line.as_bytes()); }
                        st.sample(format!("compress {} hl={} comp={:?} src={}B", c.cfg.line(), c.hashlen, c.comp, c.src.len()));
                    }
                    // the > 1 MiB case is run through the model only in the thorough tier (about a minute of model time)
                    if (r == 0 && thorough) || !big { out.push(&line, &format!("OK {}", hex(&bytes))); }
                }
                Err(e) => {
                    st.violation("C11", &format!("library writer failed on a valid configuration: {}", e), &compress_line(&c, &[]));
                    if e.starts_with("UNFLUSHED") { st.violation("C12", &format!("what the library writer has committed when it returns depends on the output's buffering: {}", e), &compress_line(&c, &[])); }
                }
            }
        }
    }
    out.finish();
}

pub fn replay(line: &str) -> Result<(), String> {
    let t: Vec<&str> = line.split(' ').collect();
    match t[0] {
        "protodec" => { let r = decode_line(&unhex(t[1])); if r == "PANIC" { Err("decoder panicked".into()) } else { Ok(()) } }
        "tryinit" => { let r = try_init_line(&unhex(t[1])); if r == "PANIC" { Err("try_init panicked".into()) } else { Ok(()) } }
        "compress" => {
            let cfg = crate::chunking::Cfg::parse(&t[1..6]);
            let mut meta = BTreeMap::new();
            if t[8] != "-" { for e in t[8].split(';') { let p: Vec<&str> = e.split(':').collect(); meta.insert(String::from_utf8(unhex(p[0])).unwrap(), unhex(p[1])); } }
            let c = CompressCase { cfg, hashlen: t[6].parse().unwrap(), comp: if t[7] == "-" { None } else { let q: Vec<u32> = t[7].split(',').map(|x| x.parse().unwrap()).collect(); Some((q[0], q[1])) }, meta, src: unhex(t[9]) };
            let a = run_create_archive(&c, 2, vec![])?;
            c11_oracle(&c, &a)?;
            let b = run_create_archive(&c, 64, vec![Ev::Read(1), Ev::Pending, Ev::Read(7)])?;
            if a != b { return Err("two runs differ".into()); }
            Ok(())
        }
        _ => Err("unknown".into()),
    }
}
